"""C05 — literal zones pass through every pipeline byte for byte."""
from __future__ import annotations

import ast

import z3

from contracts import repair as RC
from contracts import zones as ZC
from verif import extract
from verif.common import Ctx, Ob, Outcome, Witness, shape_verdict
from verif.extract import ExtractionError
from verif.pyvc import loopstep
from verif.pyvc.adapter import contract_ob
from verif.reglang import automata as A
from verif.reglang.alphabet import alphabet

PROPERTY = "C05"
LEVEL = "other"
LEVEL_TEXT = "the zone path of each stage is under a discharged contract on the real code: fence-line precedence (_evaluate_fence_line), one iteration of the fence-detecting normaliser as an inductive step under its loop invariant (loop body extracted from the AST on every run), the tokenizer's fence-span block (literal text = exactly the bytes between the fence lines; string VCs decided by cvc5), parse_literal_zone, the emitter's two zone branches (exact output text), repair_value/_repair_ast_node zone passthrough; FENCE_PATTERN's language is proved equal to the reference `spaces* backtick{3,} non-backtick*`. Composition across stages, the induction over lines and the tools are not proved: they are explored by a generator-driven bounded sweep with an independent fence scanner"
LEVEL_NOTE = "unbounded per function; assumptions: regex match/group and unicodedata.normalize are uninterpreted (the contract is stated over the same symbols), str.strip is uninterpreted with subset axioms, induction over the line list is a meta-argument (initial state and loop/return shape are checked syntactically); octave_write/validate/eject/seal composition is bounded only"
TECHNIQUE = "pre/postconditions and a loop invariant on the real functions (VCs from the AST; z3, cvc5 --strings-exp for the slicing obligations); regular-language equivalence for FENCE_PATTERN; property-level z3 lemma; bounded generator-driven sweep through all pipelines"
EXPLANATION = "C05: P contracts per stage, R1 fence language, L1 the emit/read composition on one zone (exposes the blank-line ambiguity), B1 generated documents through parse/emit/seal/validate/write/eject."
ASSUMPTIONS = [
    "A-regex: FENCE_PATTERN.match and its groups are uninterpreted functions of the line in the VCs; their language is pinned by C05.R1",
    "A-nfc: unicodedata.normalize is an uninterpreted function (contracts only say where it is and is not applied)",
    "A-induction: the step contract is lifted to all lines by induction over the list (not machine-checked); initial state and loop shape are checked on the AST",
    "str.strip: uninterpreted with |strip(s)| <= |s|, strip(s) substring of s, idempotent",
]
TRUSTED_BASE = ["z3", "cvc5", "verif.pyvc", "verif.reglang"]
LEXER = "octave_mcp.core.lexer"
FUNCS = [f"{LEXER}:_normalize_with_fence_detection", f"{LEXER}:_evaluate_fence_line", f"{LEXER}:tokenize", "octave_mcp.core.parser:Parser.parse_literal_zone", "octave_mcp.core.emitter:emit_assignment", "octave_mcp.core.emitter:emit_block", "octave_mcp.core.repair:repair_value"]


def probe_zone_normaliser():
    """the real _normalize_with_fence_detection on texts with NFD inside and outside zones, nested shorter fences, an unterminated zone"""
    import unicodedata

    from octave_mcp.core.lexer import LexerError, _normalize_with_fence_detection

    nfd = "e\u0301"
    bad = []
    for lines in (["a" + nfd, "```", nfd + "\t", "``" + nfd, "```", nfd], ["  ````py", "```" + nfd, "x", "  ````", "K::" + nfd], ["```", "```"], ["x"], [""]):
        text = "\n".join(lines)
        out, spans = _normalize_with_fence_detection(text)
        got = out.split("\n")
        inside = False
        exp = []
        marker = None
        for ln in lines:
            st = ln.strip()
            if not inside and st.startswith("```") and "`" not in st.lstrip("`"):
                inside, marker = True, st[: len(st) - len(st.lstrip("`"))]
                exp.append(unicodedata.normalize("NFC", ln))
            elif inside and st == marker:
                inside = False
                exp.append(unicodedata.normalize("NFC", ln))
            elif inside:
                exp.append(ln)
            else:
                exp.append(unicodedata.normalize("NFC", ln))
        if got != exp:
            bad.append(f"{text!r}: normalised to {out!r}")
        for s0, e0, mk, _ in spans:
            seg = out[s0:e0].split("\n")
            if not (seg[0].strip().startswith(mk) and seg[-1].strip() == mk):
                bad.append(f"{text!r}: span {s0}:{e0} does not run from an opening to its closing fence line")
    try:
        _normalize_with_fence_detection("```\nx")
        bad.append("an unterminated zone is accepted")
    except LexerError:
        pass
    return bool(bad), "; ".join(bad[:2]) or "probe: content lines untouched, other lines NFC, spans fence-to-fence"


def ob_step_frame(ctx: Ctx) -> Outcome:
    """The inductive argument's side conditions, read from the AST: initial state satisfies the invariant, the loop
    iterates `enumerate(content.split('\\n'), start=1)`, output lists are append-only, and the function returns
    ('\\n'.join(output_parts), fence_spans) with only a raise between the loop and the return."""
    try:
        st = loopstep.step_function(LEXER, "_normalize_with_fence_detection", 0)
    except ExtractionError as e:
        return Outcome.undecided("ast-shape", str(e))
    facts = []
    init = {k: ast.unparse(v) for k, v in loopstep.initial_values(st).items()}
    want = {"in_fence": "False", "current_fence_marker": "None", "current_info_tag": "None", "output_parts": "[]", "fence_spans": "[]", "output_offset": "0"}
    for k, v in want.items():
        if init.get(k) != v:
            return shape_verdict("ast-shape", [f"initial state: {k} = {init.get(k)} (the invariant's base case needs {v})"], probe_zone_normaliser, len(want), {"runner": "props.C05:probe_zone_normaliser", "args": {}})
    facts.append("base case: in_fence=False, marker=None, tag=None, output_parts=[], fence_spans=[], output_offset=0")
    probs = loopstep.append_only(st, ["output_parts", "fence_spans"])
    if probs:
        return shape_verdict("ast-shape", [f"output list is not append-only: {p}" for p in probs], probe_zone_normaliser, len(want) + 1, {"runner": "props.C05:probe_zone_normaliser", "args": {}})
    facts.append("output_parts and fence_spans are only appended to")
    loop = st.loop
    if ast.unparse(loop.iter) != "enumerate(lines, start=1)" or ast.unparse(loop.target) != "(line_num, line)":
        return Outcome.undecided("ast-shape", f"loop header changed: for {ast.unparse(loop.target)} in {ast.unparse(loop.iter)}")
    lines_asg = [n for n in st.owner.body if isinstance(n, ast.Assign) and ast.unparse(n.targets[0]) == "lines"]
    if len(lines_asg) != 1 or ast.unparse(lines_asg[0].value) not in ("content.split('\\n')",):
        return Outcome.undecided("ast-shape", "`lines` is not content.split('\\n')")
    facts.append("the loop visits content.split('\\n') in order, once")
    tail = st.owner.body[st.owner.body.index(loop) + 1:]
    if not tail or not isinstance(tail[-1], ast.Return) or ast.unparse(tail[-1].value) != "('\\n'.join(output_parts), fence_spans)":
        return shape_verdict("ast-shape", [f"the function no longer returns ('\\n'.join(output_parts), fence_spans): {ast.unparse(tail[-1])[:80] if tail else 'nothing'}"], probe_zone_normaliser, len(want) + 3, {"runner": "props.C05:probe_zone_normaliser", "args": {}})
    for stt in tail[:-1]:
        if not (isinstance(stt, ast.If) and ast.unparse(stt.test) == "in_fence" and isinstance(stt.body[-1], ast.Raise)):
            return Outcome.undecided("ast-shape", f"statement between loop and return: {ast.unparse(stt)[:60]}")
    facts.append("after the loop: raise if a fence is still open, else return ('\\n'.join(output_parts), fence_spans)")
    return Outcome.ok("ast-shape", count=len(want) + 4, facts=facts)


def ob_fence_language(ctx: Ctx) -> Outcome:
    """L(FENCE_PATTERN) == spaces* backtick{3,} [^\\n`]* ; consequences used by the other contracts: group 3 is the
    whole backtick run (nothing after it is a backtick), a shorter run never matches with a longer group, the
    emitter's fence lines (indent + marker [+ tag without backtick/newline]) always match."""
    try:
        rx = extract.module_consts(LEXER).get("FENCE_PATTERN")
        if not isinstance(rx, extract.Rx):
            raise ExtractionError("lexer.FENCE_PATTERN is not an extractable compiled regex")
        al = alphabet()
        got = A.dfa_regex(rx.pattern, rx.flags, None, al)
        ref = A.dfa_regex(r" *`{3,}[^\n`]*", 0, None, al)
        # .match() with ^...$ : `$` also matches before a trailing newline; lines come from split('\n') so contain none
        no_nl = A.dfa_regex(r"[^\n]*", 0, None, al)
        got_m = A.erase_mark(A.match_marked(rx.pattern, rx.flags, None, al)) & no_nl
    except ExtractionError as e:
        return Outcome.undecided("dfa", str(e))
    wits = []
    for name, a, b in (("fullmatch language", got & no_nl, ref), ("match language on newline-free lines", got_m, ref)):
        d1, d2 = a - b, b - a
        for d, what in ((d1, "accepted but not a fence line"), (d2, "a fence line that is not accepted")):
            if not d.is_empty():
                s = d.witness_str()
                wits.append(Witness(what=f"FENCE_PATTERN {name}: {s!r} is {what}", key=f"{name}:{what}", input=s, replay={"runner": "props.C05:replay_fence_line", "args": {"line": s}}, confirmed=True))
    if wits:
        return Outcome.refuted("dfa", wits, count=4)
    return Outcome.ok("dfa", count=4, states=got.size())


def replay_fence_line(line: str):
    import re

    from octave_mcp.core import lexer

    m = lexer.FENCE_PATTERN.match(line)
    ref = re.fullmatch(r" *`{3,}[^\n`]*", line)
    return (m is None) != (ref is None), f"FENCE_PATTERN.match({line!r}) = {m and m.groups()}; reference fence-line grammar says {'fence' if ref else 'not a fence'}"


def replay_blank_line_zone(content: str = ""):
    """emit then read one zone whose written lines are `content.split('\\n')` with has_body"""
    from octave_mcp.core.emitter import emit
    from octave_mcp.core.parser import parse

    text = "===D===\nK::\n```\n" + content + "\n```\n===END===\n"
    canon = emit(parse(text))
    return canon != text, f"zone written with the line(s) {content.split(chr(10))!r}: canonical text {canon!r} (input {text!r})"


def ob_lemma(ctx: Ctx) -> Outcome:
    """C05.L1 — composition on one zone, over the contracts: the tokenizer block gives content = body (has_body) or ""
    (empty); the emitter writes `content + "\\n"` between the fences iff content != "". Read-after-emit returns the
    written bytes iff for every body: (has_body -> emitted_between == body + "\\n") and (not has_body -> emitted_between == "")."""
    body = z3.String("body")
    has_body = z3.Bool("has_body")
    content = z3.If(has_body, body, z3.StringVal(""))  # FENCE_BLOCK_*: literal-text-is-body ; PARSE_ZONE: content-verbatim
    emitted = z3.If(content == z3.StringVal(""), z3.StringVal(""), z3.Concat(content, z3.StringVal("\n")))  # EMIT_*: zone-text-exact
    written = z3.If(has_body, z3.Concat(body, z3.StringVal("\n")), z3.StringVal(""))
    s = z3.Solver()
    s.set("timeout", 20000)
    s.add(emitted != written)
    r = s.check()
    if r == z3.unsat:
        return Outcome.ok("z3", count=1)
    if r != z3.sat:
        return Outcome.undecided("z3", "lemma: unknown")
    m = s.model()
    b = m.eval(body, model_completion=True).as_string()
    # is the counter-model unique? (only body == "" with has_body)
    s2 = z3.Solver()
    s2.add(emitted != written, z3.Not(z3.And(has_body, body == z3.StringVal(""))))
    only_blank = s2.check() == z3.unsat
    failed, text = replay_blank_line_zone(b)
    w = Witness(
        what=f"emit then read does not give back the written zone: {text}" + ("" if only_blank else " (and other counter-models exist)"),
        input=b,
        key="one-blank-line" if only_blank and b == "" else f"other:{b!r}",
        replay={"runner": "props.C05:replay_blank_line_zone", "args": {"content": b}},
        confirmed=failed,
        verifier_output=f"z3 model: has_body={m.eval(has_body)}, body={b!r}; counter-model unique up to this case: {only_blank}",
    )
    return Outcome.refuted("z3", [w], count=1, discharged=0)


ZONE_PROBE_CONTENTS = ["x", "", "a  \n\tb\n", "\t```", "\u00a0```", "\x0c````", "```js` is the tag", "  ``` not a fence`", "``", "\\n \\t \"q\"", "e\u0301 -> +", "{a}<b>", "   "]


def probe_zone_emission():
    """concrete zones (content lines that LOOK like fences but are not: indented by tab / NBSP / form feed, a run followed by a
    later backtick; trailing spaces; escapes; aliases) through emit_assignment / emit_block / emit_value: the exact text is
    indent + marker + tag / content / indent + marker with the node's own marker. -> (fails, text)"""
    from octave_mcp.core.ast_nodes import Assignment, Block, LiteralZoneValue
    from octave_mcp.core.emitter import emit_assignment, emit_block, emit_value

    bad = []
    for content in ZONE_PROBE_CONTENTS:
        for marker in ("```", "````"):
            for tag in (None, "py"):
                lz = LiteralZoneValue(content=content, info_tag=tag, fence_marker=marker)
                for ind in (0, 1, 3):
                    pre = "  " * ind
                    want = "\n".join([f"{pre}K::", f"{pre}{marker}{tag or ''}"] + ([content] if content else []) + [f"{pre}{marker}"])
                    got = emit_assignment(Assignment(key="K", value=lz), ind)
                    if got != want:
                        bad.append(f"emit_assignment(zone content={content!r} marker={marker!r} tag={tag!r}, indent {ind}) = {got!r}, expected {want!r}")
                    pre1 = "  " * (ind + 1)
                    wantb = "\n".join([f"{pre}B:", f"{pre1}{marker}{tag or ''}"] + ([content] if content else []) + [f"{pre1}{marker}"])
                    gotb = emit_block(Block(key="B", children=[Assignment(key="", value=lz)]), ind)
                    if gotb != wantb:
                        bad.append(f"emit_block(bare zone content={content!r} marker={marker!r}, indent {ind}) = {gotb!r}, expected {wantb!r}")
                gv = emit_value(lz)
                if not (gv.startswith(marker + (tag or "") + "\n") and gv.endswith(marker) and not gv.endswith("`" + marker) and content in gv):
                    bad.append(f"emit_value(zone content={content!r} marker={marker!r}) = {gv!r}: not the node's own fence around its content")
    return bool(bad), "; ".join(bad[:2]) or f"{len(ZONE_PROBE_CONTENTS)} hostile zone contents x 2 markers x 2 tags x 3 indents: exact text"


def obligations(ctx: Ctx):
    P = PROPERTY
    obs = [
        contract_ob(f"{P}.P1", "_evaluate_fence_line: close iff same length and only whitespace after; error iff longer-or-equal otherwise; content iff shorter", lambda: ZC.EVAL_FENCE, "contracts.zones:EVAL_FENCE"),
        contract_ob(f"{P}.P2.step", "one iteration of _normalize_with_fence_detection under the loop invariant: lines inside a fence are appended untouched; NFC only outside and on fence lines; spans record [open line start, close line end)", lambda: ZC.STEP, "contracts.zones:STEP"),
        Ob(f"{P}.P2.frame", "P", "base case, loop header, append-only outputs and return shape of _normalize_with_fence_detection", [f"{LEXER}:_normalize_with_fence_detection"], ob_step_frame),
        contract_ob(f"{P}.P3.body", "tokenize fence block: LITERAL_CONTENT is exactly the bytes between the fence lines (zone with lines)", lambda: ZC.FENCE_BLOCK_BODY, "contracts.zones:FENCE_BLOCK_BODY"),
        contract_ob(f"{P}.P3.empty", "tokenize fence block: an empty zone gives the empty literal text and still three tokens", lambda: ZC.FENCE_BLOCK_EMPTY, "contracts.zones:FENCE_BLOCK_EMPTY"),
        contract_ob(f"{P}.P4.content", "parse_literal_zone: token text -> LiteralZoneValue.content unchanged; marker unchanged; tag stripped or None", lambda: ZC.PARSE_ZONE, "contracts.zones:PARSE_ZONE"),
        contract_ob(f"{P}.P4.nocontent", "parse_literal_zone without a content token: empty zone, not absent", lambda: ZC.PARSE_ZONE_NO_CONTENT, "contracts.zones:PARSE_ZONE_NO_CONTENT"),
    ]
    for i, c in enumerate(ZC.EMIT_ASSIGNMENT_ZONE):
        obs.append(contract_ob(f"{P}.P5.assign{i}", f"emit_assignment on a zone value ({c.label}): exact text, content un-indented and unescaped", lambda i=i: ZC.EMIT_ASSIGNMENT_ZONE[i], f"contracts.zones:EMIT_ASSIGNMENT_ZONE[{i}]", probe=probe_zone_emission, probe_ref="props.C05:probe_zone_emission"))
    for i, c in enumerate(ZC.EMIT_BLOCK_BARE_ZONE):
        obs.append(contract_ob(f"{P}.P5.bare{i}", f"emit_block on a bare zone child ({c.label}): exact text", lambda i=i: ZC.EMIT_BLOCK_BARE_ZONE[i], f"contracts.zones:EMIT_BLOCK_BARE_ZONE[{i}]", probe=probe_zone_emission, probe_ref="props.C05:probe_zone_emission"))
    obs += [
        contract_ob(f"{P}.P6.value", "repair_value returns a literal zone unchanged and logs nothing", lambda: RC.REPAIR_VALUE_ZONE, "contracts.repair:REPAIR_VALUE_ZONE"),
        contract_ob(f"{P}.P6.node", "_repair_ast_node leaves zone-valued assignments untouched", lambda: RC.REPAIR_NODE, "contracts.repair:REPAIR_NODE"),
        Ob(f"{P}.R1", "R", "L(FENCE_PATTERN) == spaces* backtick{3,} non-backtick*", [f"{LEXER}:FENCE_PATTERN"], ob_fence_language),
        Ob(f"{P}.L1", "L", "emit then read gives back the written zone (composition of the stage contracts on one zone)", FUNCS, ob_lemma),
    ]
    try:
        from props import C05_b

        obs.append(Ob(f"{P}.B1", "B", "generated documents with zones through parse, emit, seal, octave_validate, octave_write, octave_eject vs an independent fence scanner", FUNCS, C05_b.ob_b1, timeout=3000))
    except ImportError:
        pass
    # the lenient writer's brace-for-angle pre-processor edits raw text: literal zones are outside its reach (shared with C07)
    from props import C07 as _C07
    from props import C07_b as _C07b

    obs.append(Ob(f"{P}.P7.brace", "P", "brace repair of octave_write(lenient): the protected-range lookup answers 'inside some protected range' exactly, so text inside a literal zone is never rewritten (contract shared with C07.P9)", ["octave_mcp.mcp.write:WriteTool._repair_curly_brace_annotations"], _C07.ob_protected_lookup))
    obs.append(Ob(f"{P}.B2.brace", "B", "octave_write(lenient) on documents with brace forms inside literal zones (after strings / comments, inside longer fences holding shorter backtick runs): zone bytes unchanged, no receipt", ["octave_mcp.mcp.write:WriteTool._repair_curly_brace_annotations"], _C07b.ob_b3))
    from props import lexical as _LX

    obs.append(Ob(f"{P}.F4.frontmatter", "F", "frontmatter stripping cuts and glues on the same literal newline: zone content behind frontmatter (CR, FF, U+2028 ...) passes through byte for byte", ["octave_mcp.core.parser:_strip_yaml_frontmatter"], _LX.ob_frontmatter_split_join))
    return obs
