"""C20.B — bounded: token sequences, random Unicode, mutated packaged documents, size scaling; readers and tools."""
from __future__ import annotations

import asyncio
import glob
import itertools
import json
import os
import random
import shutil
import sys
import tempfile
import time

from verif.bounded.sweep import sweep
from verif.common import REPO, Ctx, Outcome, Witness

# 30 token spellings of the OCTAVE surface (each followed by nothing: sequences are plain concatenations)
TOKENS = ["===DOC===\n", "===END===\n", "META:\n", "K::", "B:\n", "  ", "\n", "v", '"s"', '"', '"""', "1", "-", "1.5", "true", "null", "[", "]", ",", "::", ":", "→", "->", "⊕", "+", "§1::S\n", "//c\n", "```\n", "---\n", "#", " vs ", "<q>", "{", "\\", "\t", "$V", "∧", "é"]
TOKENS30 = TOKENS[:30]
READERS = ("tokenize", "parse", "parse_with_warnings", "parse_meta_only")
_RECURSION = 0


def readers():
    from octave_mcp.core.lexer import tokenize
    from octave_mcp.core.parser import parse, parse_meta_only, parse_with_warnings

    return {"tokenize": tokenize, "parse": parse, "parse_with_warnings": parse_with_warnings, "parse_meta_only": parse_meta_only}


def read_all(text: str, fns=None) -> str | None:
    """None, or 'reader|exception type: message' for the first reader that raises something other than its own error"""
    from octave_mcp.core.lexer import LexerError
    from octave_mcp.core.parser import ParserError

    fns = fns or readers()
    for name, f in fns.items():
        try:
            f(text)
        except (LexerError, ParserError) as e:
            # positioned: carries line / column (or a token with them)
            if isinstance(e, LexerError) and not (isinstance(getattr(e, "line", None), int) and isinstance(getattr(e, "column", None), int)):
                return f"{name}|LexerError without an integer position: {e!r}"[:300]
            continue
        except RecursionError as e:
            return f"{name}|RecursionError: {str(e)[:60]}"
        except Exception as e:  # noqa: BLE001
            return f"{name}|{type(e).__name__}: {str(e)[:120]}"
    return None


# ---- B1: token sequences ------------------------------------------------------------------------------------------------

_SEQ_CFG: dict = {}


def _seq_text(idx: int, L: int) -> str:
    out = []
    for _ in range(L):
        out.append(TOKENS30[idx % 30])
        idx //= 30
    return "".join(reversed(out))


def _seq_chunk(ci: int):
    cfg = _SEQ_CFG
    L, chunk, sample, seed = cfg["L"], cfg["chunk"], cfg["sample"], cfg["seed"]
    fns = readers()
    total = 30**L
    lo, hi = ci * chunk, min(total, (ci + 1) * chunk)
    rng = random.Random(seed * 1000003 + ci)
    idxs = range(lo, hi) if sample >= 1.0 else sorted(rng.sample(range(lo, hi), max(1, int((hi - lo) * sample))))
    n = 0
    for i in idxs:
        n += 1
        t = _seq_text(i, L)
        p = read_all(t, fns)
        if p:
            return True, f"{p} | token sequence {t!r} (length {L})", True, (L, i), n
    return False, "", True, (L, lo), n


def _seq_job(ci):
    r = _seq_chunk(ci)
    return r[0], r[1], r[2], r[3]


def replay_seq(L: int, i: int):
    t = _seq_text(i, L)
    p = read_all(t)
    return bool(p), (f"{p} | {t!r}" if p else f"{t!r}: every reader returns or raises its own error")


def ob_sequences(ctx: Ctx) -> Outcome:
    wits = []
    total_eval = 0
    plan = [(1, 1.0), (2, 1.0), (3, 1.0), (4, 1.0 if ctx.thorough else 0.05), (5, 0.04 if ctx.thorough else 0.002)]
    desc = []
    import multiprocessing as mp

    for L, sample in plan:
        total = 30**L
        chunk = 3000
        nchunks = (total + chunk - 1) // chunk
        _SEQ_CFG.update(L=L, chunk=chunk, sample=sample, seed=ctx.seed)
        with mp.get_context("fork").Pool(min(ctx.cores, max(1, nchunks))) as pool:
            res = pool.map(_seq_chunk, range(nchunks), chunksize=max(1, nchunks // (ctx.cores * 4)))
        n = sum(r[4] for r in res)
        total_eval += n
        desc.append(f"length {L}: {n} of {total}")
        for failed, text, _, key, _ in res:
            if failed:
                k = text.split("|", 2)
                kk = f"{k[0]}|{k[1].split(':')[0].strip()}"
                if not any(w.key == kk for w in wits):
                    wits.append(Witness(what=text[:600], input={"L": key[0], "index": key[1]}, key=kk, replay={"runner": "props.C20_b:replay_seq", "args": {"L": key[0], "i": key[1]}}, confirmed=True))
    extra = dict(bound=f"concatenations of {len(TOKENS30)} token spellings {TOKENS30!r}: " + "; ".join(desc) + " (exhaustive where the counts agree, seeded sample otherwise), each through tokenize, parse, parse_with_warnings, parse_meta_only", evaluations=total_eval * 4, distinct_nontrivial=total_eval, rule="a case is one token sequence through the four readers; distinct by enumeration index")
    if wits:
        return Outcome.refuted("real readers", wits[:20], **extra)
    return Outcome.ok("real readers", **extra)


ob_sequences.wants_all_cores = True


# ---- B2: random Unicode and mutated packaged documents ---------------------------------------------------------------------


def packaged_docs() -> list[str]:
    out = []
    base = os.path.join(REPO, "src", "octave_mcp")
    for pat in ("schemas/builtin/*.oct.md", "resources/specs/*.oct.md", "resources/specs/schemas/*.oct.md", "resources/primers/*.oct.md", "resources/primers/*.md", "resources/skills/**/*.md", "resources/skills/**/*.oct.md"):
        for p in sorted(glob.glob(os.path.join(base, pat), recursive=True)):
            try:
                with open(p, encoding="utf-8") as f:
                    out.append(f.read())
            except Exception:  # noqa: BLE001
                pass
    return out


def rand_text(rng: random.Random) -> str:
    kind = rng.random()
    n = rng.choice((1, 2, 5, 20, 80, 300))
    pools = [
        lambda: chr(rng.choice([rng.randint(0, 0x7F), rng.randint(0x80, 0x7FF), rng.randint(0x800, 0xD7FF), rng.randint(0xE000, 0xFFFF), rng.randint(0x10000, 0x10FFFF)])),
        lambda: rng.choice(TOKENS),
        lambda: rng.choice(["\u0301", "\u200b", "\u202e", "\ufeff", "\x00", "\x1b", "\r", "\x0b", "\x0c", "\u2028", "\ud7ff", "\U0001f600", "\u0000", "\x7f", "\xa0"]),
        lambda: rng.choice(list(' \n"\\[]{}<>:=#$%§→⊕⧺⇌∧∨`~|&+-.,/')),
    ]
    if kind < 0.3:
        return "".join(pools[0]() for _ in range(n))
    if kind < 0.6:
        return "".join(rng.choice(pools)() for _ in range(n))
    return "===D===\n" + "".join(rng.choice(pools[1:])() for _ in range(n)) + rng.choice(["", "\n===END===\n"])


def mutate(doc: str, rng: random.Random) -> str:
    if not doc:
        return doc
    n = len(doc)
    op = rng.choice(("delete", "insert", "duplicate", "transpose", "truncate", "line-delete", "line-dup"))
    a = rng.randrange(n)
    b = min(n, a + rng.choice((1, 1, 2, 5, 20, 200)))
    if op == "delete":
        return doc[:a] + doc[b:]
    if op == "insert":
        return doc[:a] + rng.choice(TOKENS + ["\t", "\x00", "\u0301", "]]]]", "[[[[", '"""', "```"]) + doc[a:]
    if op == "duplicate":
        return doc[:b] + doc[a:b] + doc[b:]
    if op == "transpose":
        c = min(n, b + (b - a))
        return doc[:a] + doc[b:c] + doc[a:b] + doc[c:]
    if op == "truncate":
        return doc[:a]
    lines = doc.split("\n")
    i = rng.randrange(len(lines))
    if op == "line-delete":
        return "\n".join(lines[:i] + lines[i + 1:])
    return "\n".join(lines[:i] + [lines[i]] * 2 + lines[i:])


_DOCS: list[str] = []
_RB_CFG: dict = {}


def _rand_text_for(idx: int) -> str:
    rng = random.Random(_RB_CFG["seed"] * 7919 + idx)
    if idx % 2 == 0 or not _DOCS:
        return rand_text(rng)
    d = _DOCS[rng.randrange(len(_DOCS))]
    for _ in range(rng.choice((1, 1, 2, 4))):
        d = mutate(d, rng)
    return d


def _rand_one(idx: int):
    t = _rand_text_for(idx)
    t0 = time.time()
    p = read_all(t)
    dt = time.time() - t0
    if p:
        return True, f"{p} | input ({'random' if idx % 2 == 0 else 'mutated packaged document'}, {len(t)} chars) {t[:200]!r}", True, idx
    if dt > 20:
        return True, f"slow|{dt:.1f}s for {len(t)} characters | {t[:100]!r}", True, idx
    return False, "", True, idx


def replay_rand(seed: int, idx: int):
    global _DOCS
    _DOCS = packaged_docs()
    _RB_CFG["seed"] = seed
    failed, text, _, _ = _rand_one(idx)
    return failed, text or "every reader returns or raises its own error"


def ob_random(ctx: Ctx) -> Outcome:
    global _DOCS
    _DOCS = packaged_docs()
    _RB_CFG["seed"] = ctx.seed
    n = 60000 if ctx.thorough else 6000
    res = sweep(_rand_one, range(n), ctx.cores, chunk=100)
    wits, seen = [], set()
    for idx, text in res["failures"][:5000]:
        k = text.split("|", 2)
        key = f"{k[0]}|{k[1].split(':')[0].strip()}"
        if key in seen:
            continue
        seen.add(key)
        wits.append(Witness(what=text[:700], input={"index": idx}, key=key, replay={"runner": "props.C20_b:replay_rand", "args": {"seed": ctx.seed, "idx": idx}}, confirmed=True))
    extra = dict(bound=f"{n} inputs: half random strings (all of Unicode without surrogates: ASCII, 2/3/4-byte ranges, controls, combining, bidi, BOM, NUL; token soups; enveloped soups; lengths 1-300), half mutations (delete / insert / duplicate / transpose spans, truncate, delete / duplicate lines; 1-4 per document) of the {len(_DOCS)} packaged specifications, primers, skills and schemas; each through the four readers", evaluations=res["evaluations"] * 4, distinct_nontrivial=res["nontrivial"], rule="a case is one input through the four readers")
    if wits:
        return Outcome.refuted("real readers", wits[:20], **extra)
    return Outcome.ok("real readers", **extra)


ob_random.wants_all_cores = True


# ---- B3: tools never raise, envelopes serialise ------------------------------------------------------------------------------

TOOL_CONTENTS = [
    "", "\n", "===D===\nA::1\n===END===\n", "===D===\nMETA:\n  TYPE::SESSION_LOG\n  VERSION::\"1.0\"\nA::x->y\n===END===\n", "junk ::: [", "===D===\nA::[1,\n", "\t", "\x00", "===D===\nK::\n```\nraw\n```\n===END===\n", "===D===\nK::" + "[" * 120 + "]" * 120 + "\n===END===\n",
    "===D===\n" + "  " * 150 + "K::1\n===END===\n", "é" * 50, "===D===\nMETA:\n  TYPE::X\n  CONTRACT::[FIELD[A]::REQ∧ENUM[x,y]]\nA::z\n===END===\n", "===SCH===\nMETA:\n  TYPE::PROTOCOL_DEFINITION\n  VERSION::\"1.0\"\nPOLICY:\n  VERSION::\"1.0\"\n  UNKNOWN_FIELDS::REJECT\nFIELDS:\n  A::[\"x\"∧REQ∧REGEX[\"(\"]]\n===END===\n",
    "===D===\nA::" + "9" * 5000 + "\n===END===\n", "===D===\n§1::S\n  K::NAME<>\n===END===\n", "\ufeff===D===\nA::1\n===END===\n", "===D===\r\nA::1\r\n===END===\r\n",
]
# blocks nested deeper than the converters' own recursion budgets (the reader accepts up to about 950 levels)
TOOL_CONTENTS += ["===D===\n" + "".join(" " * i + f"B{i}:\n" for i in range(600)) + " " * 600 + "K::1\n===END===\n"]
# text a JSON transport can deliver but UTF-8 cannot encode (lone surrogates from \udXXX escapes)
TOOL_CONTENTS += ['===DOC===\nA::"x\udc80y"\n===END===\n', "\ud800", '===D===\nMETA:\n  TYPE::"\udfff"\nK::1\n===END===\n']
TOOL_CONTENTS += [
    # receipt-bearing constructs with non-string values (the tools copy parser receipts into their envelopes)
    "===D===\nPATTERN::[a,b]\n===END===\n", '===D===\nREGEX::["x"∧REQ→§SELF]\n===END===\n', "===D===\nPATTERN::\n```\nraw\n```\n===END===\n", "===D===\nL::[PATTERN::[a,b],REGEX::5,ENUM::\"x\"]\n===END===\n",
    "===D===\nK::a b c\nK::1 2\nK::true x\nK::null y\nV::1.2.3 beta\nF::A->B->C\nT::a vs b vs c\nM::[k::[i::1]]\nX::[1,2\nY::z\n===END===\n", "===D===\nbare line\nK::v\nK::w\n===END===\n", "===D===\nS::REQ∧OPT\nD::" + "[" * 7 + "x" + "]" * 7 + "\n===END===\n",
]
# META fields the tools interpret themselves (TYPE, VERSION, CONTRACT, GRAMMAR) holding every kind of value, not only text
TOOL_CONTENTS += [f"===D===\nMETA:\n  TYPE::{v}\n  VERSION::{v}\n  CONTRACT::[FIELD[LIMIT]::RANGE[0,5]]\nLIMIT::3\n===END===\n" for v in ("42", "null", "[a,b]", "[k::v]", "true")]
TOOL_CONTENTS += ["===D===\nMETA:\n  TYPE::X\n  CONTRACT::42\n  GRAMMAR::[1,2]\nK::1\n===END===\n", "===D===\nMETA:\n  TYPE::\n```\nraw\n```\n  CONTRACT::[FIELD[A]::REQ]\nA::1\n===END===\n"]
SCHEMAS = ["META", "SESSION_LOG", "NOPE", "", "meta", "M" * 300, "../x", "DEBATE_TRANSCRIPT", "SKILL", "TEST_HOLOGRAPHIC"]


def tool_calls(content: str, d: str):
    """(label, coroutine factory) for every tool x flag combination on this content"""
    from octave_mcp.mcp.compile_grammar import CompileGrammarTool
    from octave_mcp.mcp.eject import EjectTool
    from octave_mcp.mcp.validate import ValidateTool
    from octave_mcp.mcp.write import WriteTool

    out = []
    for schema in SCHEMAS:
        for kw in ({}, {"fix": True}, {"profile": "STRICT"}, {"profile": "LENIENT"}, {"profile": "ULTRA"}, {"compact": True}, {"diff_only": True}, {"grammar_hint": True}, {"fix": True, "profile": "STRICT", "compact": True, "diff_only": True, "grammar_hint": True}):
            out.append((f"validate(schema={schema[:12]!r},{kw})", lambda schema=schema, kw=kw: ValidateTool().execute(content=content, schema=schema, **kw)))
        for fmt in ("octave", "json", "yaml", "markdown", "gbnf"):
            for mode in ("canonical", "authoring", "executive", "developer"):
                out.append((f"eject({fmt},{mode},schema={schema[:12]!r})", lambda schema=schema, fmt=fmt, mode=mode: EjectTool().execute(content=content, schema=schema, format=fmt, mode=mode)))
    for fmt in ("gbnf", "json_schema"):
        out.append((f"compile_grammar(content,{fmt})", lambda fmt=fmt: CompileGrammarTool().execute(content=content, format=fmt)))
    for schema in SCHEMAS:
        out.append((f"compile_grammar(schema={schema[:12]!r})", lambda schema=schema: CompileGrammarTool().execute(schema=schema)))
    p = os.path.join(d, "t.oct.md")
    for kw in ({}, {"lenient": True}, {"corrections_only": True}, {"schema": "META"}, {"schema": "M" * 300, "lenient": True}, {"lenient": True, "schema": "META", "grammar_hint": True, "corrections_only": True}, {"base_hash": "0" * 64}, {"parse_error_policy": "salvage"} if False else {"lenient": False, "schema": "NOPE"}):
        out.append((f"write(content,{kw})", lambda kw=kw: WriteTool().execute(target_path=p, content=content, **kw)))
    out.append(("write(changes)", lambda: WriteTool().execute(target_path=p, changes={"A": content[:50], "META.X": [content[:10]], "B": {"$op": "DELETE"}})))
    out.append(("write(normalize)", lambda: WriteTool().execute(target_path=p)))
    out.append(("validate(file_path)", lambda: ValidateTool().execute(file_path=p, schema="META")))
    return out


def _model_text(idx: int) -> str:
    """a lenient rendering of a document of the content model (every value kind at every position, constructor keys in maps ...)"""
    from verif.bounded import model as M

    docs = _MODEL.setdefault("docs", list(M.documents(2, 2, 0, 3000)))
    rng = random.Random(idx)
    m = docs[(idx * 37) % len(docs)]
    rs = list(M.render_all_lenient(m, 4, rng))
    return rs[idx % len(rs)][0]


_MODEL: dict = {}


def _tool_one(idx: int):
    if idx < len(TOOL_CONTENTS):
        content = TOOL_CONTENTS[idx]
    elif idx % 3 == 0:
        content = _model_text(idx)
    else:
        content = _rand_text_for(idx * 2 + (idx % 2))
    d = tempfile.mkdtemp(prefix="vf-c20-")
    n = 0
    try:
        for label, mk in tool_calls(content, d):
            n += 1
            try:
                r = asyncio.run(mk())
            except Exception as e:  # noqa: BLE001
                return True, f"{label.split('(')[0]}|{type(e).__name__}: {str(e)[:120]} | call {label} | content {content[:120]!r}", True, idx
            try:
                json.dumps(r)
            except Exception as e:  # noqa: BLE001
                return True, f"{label.split('(')[0]}|not JSON-serialisable: {type(e).__name__}: {str(e)[:100]} | call {label} | content {content[:120]!r}", True, idx
            if not isinstance(r, dict) or not ("status" in r or "validation_status" in r):
                return True, f"{label.split('(')[0]}|envelope without status / validation_status: {str(r)[:100]} | call {label}", True, idx
    finally:
        shutil.rmtree(d, ignore_errors=True)
    return False, "", True, idx


def replay_tool(seed: int, idx: int):
    global _DOCS
    _DOCS = packaged_docs()
    _RB_CFG["seed"] = seed
    failed, text, _, _ = _tool_one(idx)
    return failed, text or "every tool call returns a serialisable envelope"


def ob_tools(ctx: Ctx) -> Outcome:
    global _DOCS
    _DOCS = packaged_docs()
    _RB_CFG["seed"] = ctx.seed
    n = len(TOOL_CONTENTS) + (600 if ctx.thorough else 60)
    res = sweep(_tool_one, range(n), ctx.cores, chunk=2)
    wits, seen = [], set()
    for idx, text in res["failures"][:5000]:
        k = text.split("|", 2)
        key = f"{k[0]}|{k[1].split(':')[0].strip()}"
        if key in seen:
            continue
        seen.add(key)
        wits.append(Witness(what=text[:700], input={"index": idx}, key=key, replay={"runner": "props.C20_b:replay_tool", "args": {"seed": ctx.seed, "idx": idx}}, confirmed=True))
    d = tempfile.mkdtemp(prefix="vf-c20-")
    per = len(tool_calls("", d))
    shutil.rmtree(d, ignore_errors=True)
    extra = dict(bound=f"{n} contents ({len(TOOL_CONTENTS)} hand-picked: empty, broken, tabs, NUL, zones, 120-deep brackets, 150-level indentation, 5000-digit number, CONTRACT, bad REGEX schema, BOM, CRLF ...; receipt-bearing constructs with list / holographic / zone values; the rest lenient renderings of content-model documents, random strings and mutated packaged documents) x {per} calls each: octave_validate with {len(SCHEMAS)} schema arguments (known, unknown, empty, lower-case, 300 characters, path-like) x 9 flag sets, octave_eject 5 formats x 4 modes x schemas, octave_compile_grammar by content and by schema, octave_write content / changes / normalize with 8 flag sets, octave_validate(file_path); every result must be a dict with status or validation_status and pass json.dumps", evaluations=res["evaluations"] * per, distinct_nontrivial=res["evaluations"], rule="a case is one content through all tool calls")
    if wits:
        return Outcome.refuted("real tools", wits[:20], **extra)
    return Outcome.ok("real tools", **extra)


ob_tools.wants_all_cores = True


# ---- B4: size scaling -------------------------------------------------------------------------------------------------------


def scaled_inputs():
    """(family, size -> text)"""
    return [
        ("long-line-list", lambda n: "===D===\nK::[" + ",".join("a" for _ in range(n)) + "]\n===END===\n"),
        ("long-string", lambda n: '===D===\nK::"' + "x" * n + '"\n===END===\n'),
        ("many-lines", lambda n: "===D===\n" + "".join(f"K{i}::v\n" for i in range(n)) + "===END===\n"),
        ("many-blocks", lambda n: "===D===\n" + "".join(f"B{i}:\n  K::v\n" for i in range(n)) + "===END===\n"),
        ("deep-indentation", lambda n: "===D===\n" + "".join("  " * i + f"B{i}:\n" for i in range(min(n, 400))) + "===END===\n"),
        ("operators", lambda n: "===D===\nK::" + "→".join("a" for _ in range(n)) + "\n===END===\n"),
        ("comments", lambda n: "===D===\n" + "// c\n" * n + "K::v\n===END===\n"),
        ("duplicate-keys", lambda n: "===D===\n" + "K::v\n" * n + "===END===\n"),
        ("multiword", lambda n: "===D===\nK::" + " ".join("w" for _ in range(n)) + "\n===END===\n"),
        ("zone-lines", lambda n: "===D===\nK::\n```\n" + "line\n" * n + "```\n===END===\n"),
        # distinct keys: with one repeated key this family measured the duplicate-key receipts (the known finding), not quotes
        ("unterminated-quotes", lambda n: "===D===\n" + "".join(f'K{i}::"a\n' for i in range(n)) + "===END===\n"),
        ("garbage", lambda n: "%^&" * n),
    ]


def _time_family(job):
    fam_i, reader = job
    name, mk = scaled_inputs()[fam_i]
    f = readers()[reader]
    from octave_mcp.core.lexer import LexerError
    from octave_mcp.core.parser import ParserError

    sizes = [500, 1000, 2000, 4000, 8000]
    ts = []
    for n in sizes:
        t = mk(n)
        best = None
        for _ in range(2):
            t0 = time.perf_counter()
            try:
                f(t)
            except (LexerError, ParserError):
                pass
            except RecursionError as e:
                return fam_i, reader, f"RecursionError at size {n}: {str(e)[:40]}", []
            except Exception as e:  # noqa: BLE001
                return fam_i, reader, f"{type(e).__name__} at size {n}: {str(e)[:60]}", []
            dt = time.perf_counter() - t0
            best = dt if best is None else min(best, dt)
        ts.append(best)
        if best > 30:
            break
    return fam_i, reader, None, ts


def ob_scaling(ctx: Ctx) -> Outcome:
    """time(16x input) / time(input) must stay well below quadratic growth (256x): threshold 16 * 6 = 96x, and only
    when the larger run takes at least 50 ms (timer noise below that)"""
    import multiprocessing as mp

    fams = scaled_inputs()
    jobs = [(i, r) for i in range(len(fams)) for r in READERS]
    with mp.get_context("fork").Pool(min(ctx.cores, 8)) as pool:
        res = pool.map(_time_family, jobs)
    wits = []
    table = {}
    for fam_i, reader, err, ts in res:
        name = fams[fam_i][0]
        if err:
            wits.append(Witness(what=f"{reader} on {name}: {err}", key=f"{reader}|{name}|exception", input=name, replay={"runner": "props.C20_b:replay_scaling", "args": {"family": name, "reader": reader}}, confirmed=True))
            continue
        table[f"{name}/{reader}"] = [round(t * 1000, 1) for t in ts]
        if len(ts) == 5 and ts[-1] >= 0.05:
            ratio = ts[-1] / max(ts[0], 1e-4)
            if ratio > 96:
                # re-measure alone (the pool above shares the machine with 7 other series): report only when it repeats
                _, _, err2, ts2 = _time_family((fam_i, reader))
                ratio2 = ts2[-1] / max(ts2[0], 1e-4) if len(ts2) == 5 else float("inf")
                if err2 is None and not (ts2[-1] >= 0.05 and ratio2 > 96):
                    continue
                ratio, ts = max(ratio, ratio2) if ratio2 != float("inf") else ratio, ts2 if len(ts2) == 5 else ts
                wits.append(Witness(what=f"{reader} on {name}: time grows {ratio:.0f}x for a 16x larger input ({[round(t * 1000) for t in ts]} ms for sizes 500..8000)", key=f"{reader}|{name}|superlinear", input=name, replay={"runner": "props.C20_b:replay_scaling", "args": {"family": name, "reader": reader}}, confirmed=True))
        elif len(ts) < 5:
            wits.append(Witness(what=f"{reader} on {name}: a run took more than 30 s ({[round(t, 1) for t in ts]} s)", key=f"{reader}|{name}|slow", input=name, confirmed=True))
    # nesting cap: brackets below / at / beyond 100, indentation 300: own error or success, never RecursionError
    from octave_mcp.core.lexer import LexerError
    from octave_mcp.core.parser import ParserError, parse

    n = len(jobs)
    for depth in (50, 99, 100, 101, 150, 400, 2000):
        n += 1
        t = "===D===\nK::" + "[" * depth + "x" + "]" * depth + "\n===END===\n"
        try:
            parse(t)
            if depth > 101:
                pass
        except (LexerError, ParserError):
            pass
        except RecursionError:
            wits.append(Witness(what=f"parse: RecursionError at bracket depth {depth} (cap is 100)", key=f"parse|brackets|recursion|{'within' if depth < 100 else 'beyond'}-cap", input=depth, confirmed=True))
        except Exception as e:  # noqa: BLE001
            wits.append(Witness(what=f"parse: {type(e).__name__} at bracket depth {depth}", key=f"parse|brackets|{type(e).__name__}", input=depth, confirmed=True))
    for depth in (100, 300, 900, 1200, 3000):
        n += 1
        t = "===D===\n" + "".join("  " * i + f"B{i}:\n" for i in range(depth)) + "===END===\n"
        r = read_all(t)
        if r:
            wits.append(Witness(what=f"indentation depth {depth}: {r}", key=f"indent|{r.split('|')[1].split(':')[0]}", input=depth, confirmed=True))
    extra = dict(bound=f"{len(fams)} input families {[f[0] for f in fams]} at sizes 500, 1000, 2000, 4000, 8000 through the four readers (best of 2 runs; a family fails when the 8000-size run takes >= 50 ms and more than 96x the 500-size run); bracket depths 50..2000 and indentation depths 100..3000 for the recursion clause", evaluations=n, distinct_nontrivial=n, rule="a case is one (family, reader) timing series or one depth probe", timings_ms=table)
    if wits:
        return Outcome.refuted("real readers, wall clock", wits, **extra)
    return Outcome.ok("real readers, wall clock", **extra)


def replay_scaling(family: str, reader: str):
    fams = scaled_inputs()
    i = [f[0] for f in fams].index(family)
    _, _, err, ts = _time_family((i, reader))
    if err:
        return True, err
    ratio = ts[-1] / max(ts[0], 1e-4) if len(ts) == 5 else float("inf")
    return (len(ts) < 5) or (ts[-1] >= 0.05 and ratio > 96), f"{reader} on {family}: {[round(t * 1000, 1) for t in ts]} ms for sizes 500..8000 (ratio {ratio:.0f}x)"


ob_scaling.wants_all_cores = True
