"""C05.B — bounded: literal zones through every pipeline, compared with what an independent generator wrote.

The generator writes the document text itself (no repository code) from a list of zone descriptions
(content lines, fence length, info tag, host: assignment value or bare block child, indent depth, neighbours)
and knows, for each zone, the exact content lines. Observations:
  parse             LiteralZoneValue.content / info_tag / fence_marker, in document order; neighbours' keys and
                    parents (a fence neither swallows nor releases a neighbouring field); outside text NFC-normalised
  emit              an independent line scanner over the canonical text finds the same zones, content lines byte
                    for byte, fences at the node's indent; emit∘parse is a fixpoint
  tools             octave_validate (fix off / on) canonical, octave_write file bytes, seal, octave_eject canonical
                    (octave text and the __literal_zone__ objects of format=json)
"""
from __future__ import annotations

import asyncio
import itertools
import json
import os
import random
import re
import shutil
import tempfile
import unicodedata
from dataclasses import dataclass, field

from verif.bounded.sweep import sweep
from verif.common import Ctx, Outcome, Witness

NFD = "e\u0301"  # decomposed e-acute
LINES = [
    "",
    "plain text",
    "\ttab\tinside\t",
    f"caf{NFD} {NFD}",
    'back\\slash \\n \\t \\" end\\',
    'quo"te "quoted"',
    "a -> b + c ~ d vs e <-> f | g & h # i",
    "→ ⊕ ⧺ ⇌ ∧ ∨ §",
    "K::v",
    "KEY:",
    "===END===",
    "===DOC===",
    "---",
    "``",
    "`",
    f"```caf{NFD} shorter run then NFD",
    f"  ````py {NFD}\ttab",
    "  indented two",
    "      indented six",
    "trailing spaces   ",
    "// not a comment",
    "[a, b",
    "]",
    "§1::SEC",
    "true false null",
    " ",
    "\u00a0nbsp\u2028ls\x0cff",
    # lines that LOOK like a fence of the zone's own length or longer but are not one for the reader: indented by something other
    # than spaces, or a backtick later on the line (valid_zone() decides with the independent fence scanner)
    "\t```",
    "\u00a0````",
    "\x0c``````",
    "```js` is the tag",
    "  ```` then a ` later",
]


@dataclass
class Zone:
    lines: list[str]
    fence: int = 3
    tag: str | None = None
    bare: bool = False
    depth: int = 0  # nesting depth of the host (0 = top level; bare zones need depth >= 1)
    key: str = "Z"


@dataclass
class Case:
    zones: list[Zone]
    before: str | None = "assign"  # node kind placed before each zone at the zone's level
    after: str | None = "assign"
    label: str = ""
    text: str = ""
    expect_keys: list[tuple[str, str]] = field(default_factory=list)  # (path, kind) of every non-zone node, in order


def valid_zone(z: Zone) -> bool:
    """content lines may not be (or look like) a fence of the zone's length or longer"""
    for ln in z.lines:
        m = re.match(r"^ *(`{3,})[^`]*$", ln)
        if m and len(m.group(1)) >= z.fence:
            return False
    return True


def _neighbour(kind: str | None, name: str, ind: str, out: list[str], path: str, keys: list) -> None:
    if kind is None:
        return
    if kind == "assign":
        out.append(f'{ind}{name}::"caf{NFD}"')
        keys.append((f"{path}{name}", "assign-nfd"))
    elif kind == "list":
        out.append(f"{ind}{name}::[a,b]")
        keys.append((f"{path}{name}", "list"))
    elif kind == "block":
        out.append(f"{ind}{name}:")
        out.append(f"{ind}  IN_{name}::1")
        keys.append((f"{path}{name}", "block"))
        keys.append((f"{path}{name}.IN_{name}", "assign"))
    elif kind == "comment":
        out.append(f"{ind}// note {name}")
    elif kind == "section":
        out.append(f"{ind}§9::{name}")
        out.append(f"{ind}  IN_{name}::1")
        keys.append((f"{path}§9", "section"))
        keys.append((f"{path}§9.IN_{name}", "assign"))
    else:
        raise ValueError(kind)


def render(c: Case) -> None:
    out = ["===DOC===", "META:", "  TYPE::T"]
    keys: list = []
    for zi, z in enumerate(c.zones):
        path = ""
        for d in range(z.depth):
            out.append("  " * d + f"H{zi}_{d}:")
            keys.append((f"{path}H{zi}_{d}", "block"))
            path += f"H{zi}_{d}."
        ind = "  " * z.depth
        _neighbour(c.before, f"P{zi}", ind, out, path, keys)
        fence = "`" * z.fence
        if not z.bare:
            out.append(f"{ind}{z.key}{zi}::")
        out.append(f"{ind}{fence}{z.tag or ''}")
        out.extend(z.lines)
        out.append(f"{ind}{fence}")
        _neighbour(c.after, f"Q{zi}", ind, out, path, keys)
        if z.depth:
            # a sibling of the outermost host, back at column 0: must not be captured by the host
            out.append(f"T{zi}::after")
            keys.append((f"T{zi}", "assign"))
    out.append("===END===")
    c.text = "\n".join(out) + "\n"
    c.expect_keys = keys


def cases(seed: int, thorough: bool):
    rng = random.Random(seed)
    n = 0
    # 1. every single content line / pair, every fence length, tag or not, as top-level assignment value
    for ln in LINES:
        for fence, tag in itertools.product((3, 4, 5, 6), (None, "python")):
            for lines in ([ln], [ln, ln], ["x", ln], [ln, "x"]):
                z = Zone(list(lines), fence, tag)
                if valid_zone(z):
                    yield Case([z], label=f"single line {ln!r} fence {fence} tag {tag}")
    # 2. empty and blank-line zones
    for lines in ([], [""], ["", ""], ["", "", ""], ["a", ""], ["", "a"], ["a", "", "b"], [" "], ["", " ", ""]):
        for fence, tag, bare, depth in itertools.product((3, 5), (None, "t"), (False, True), (0, 1, 3)):
            if bare and depth == 0:
                continue
            yield Case([Zone(list(lines), fence, tag, bare, depth)], label=f"blank-lines {lines!r} bare={bare} depth={depth}")
    # 3. hosts x depths x neighbours
    kinds = (None, "assign", "list", "block", "comment", "section")
    for bare, depth in itertools.product((False, True), (0, 1, 2, 3)):
        if bare and depth == 0:
            continue
        for before, after in itertools.product(kinds, kinds):
            z = Zone(["  keep  ", "\t", f"{NFD}->", "K::v"], 4, "yaml", bare, depth)
            yield Case([z], before, after, label=f"host bare={bare} depth={depth} before={before} after={after}")
    # 4. info tags
    for tag in ("py", "python3", "x-y.z", "a b", "C++", "tag::x", "→", f"caf{NFD}", "t\tb"):
        yield Case([Zone(["x"], 3, tag)], label=f"tag {tag!r}")
        yield Case([Zone(["x"], 3, tag, True, 1)], label=f"tag {tag!r} bare")
    # 5. several zones per document, adjacent
    for a, b in itertools.product(((False, 0), (False, 2), (True, 1), (True, 2)), repeat=2):
        za = Zone(["one", "```"], 4, None, a[0], a[1])
        zb = Zone(["two", "===END==="], 3, "t", b[0], b[1])
        for before, after in ((None, None), ("assign", "assign"), (None, "block")):
            yield Case([za, zb], before, after, label=f"two zones {a} {b} before={before} after={after}")
    # 6. random
    budget = 12000 if thorough else 1200
    while n < budget:
        n += 1
        zs = []
        for _ in range(rng.choice((1, 1, 2, 3))):
            fence = rng.choice((3, 3, 4, 5, 6))
            lines = [rng.choice(LINES + ["`" * k for k in range(1, 6)] + [" " * rng.randint(1, 5) + "`" * rng.randint(1, 6) + "x"]) for _ in range(rng.choice((0, 1, 1, 2, 3, 5)))]
            bare = rng.random() < 0.4
            depth = rng.choice((1, 2, 3)) if bare else rng.choice((0, 0, 1, 2, 3))
            z = Zone(lines, fence, rng.choice((None, None, "py", "a b")), bare, depth)
            if valid_zone(z):
                zs.append(z)
        if zs:
            yield Case(zs, rng.choice(kinds), rng.choice(kinds), label="random")


# ---- independent scanner over emitted text ----------------------------------------------------------------------------------


def scan_zones(text: str) -> list[tuple[str, int, str, list[str]]]:
    """(indent, fence length, tag text, content lines) for every fenced zone, by lines; no repository code"""
    out = []
    lines = text.split("\n")
    i = 0
    while i < len(lines):
        m = re.match(r"^( *)(`{3,})([^`]*)$", lines[i])
        if not m:
            i += 1
            continue
        ind, fence, tag = m.group(1), m.group(2), m.group(3)
        body = []
        j = i + 1
        while j < len(lines):
            mm = re.match(r"^ *(`{3,})\s*$", lines[j])
            if mm and len(mm.group(1)) == len(fence):
                break
            body.append(lines[j])
            j += 1
        else:
            out.append((ind, len(fence), tag, ["<unterminated>"]))
            return out
        out.append((ind, len(fence), tag, body))
        i = j + 1
    return out


def _walk(doc):
    """(path, node) for body nodes in document order"""
    from octave_mcp.core.ast_nodes import Assignment, Block, Section

    def rec(nodes, path):
        for n in nodes:
            if isinstance(n, Assignment):
                yield path + n.key, n
            elif isinstance(n, Block):
                yield path + n.key, n
                yield from rec(n.children, path + n.key + ".")
            elif isinstance(n, Section):
                yield path + "§" + str(n.section_id), n
                yield from rec(n.children, path + "§" + str(n.section_id) + ".")

    yield from rec(doc.sections, "")


def _expect_zone_text(z: Zone) -> tuple[str, str | None, str]:
    tag = z.tag.strip() if z.tag else None
    return "\n".join(z.lines), (tag if tag else None), "`" * z.fence


def check_doc(c: Case, doc, where: str) -> list[str]:
    from octave_mcp.core.ast_nodes import Assignment, LiteralZoneValue

    fails = []
    got_z = [(p, n) for p, n in _walk(doc) if isinstance(n, Assignment) and isinstance(n.value, LiteralZoneValue)]
    if len(got_z) != len(c.zones):
        fails.append(f"{where}: {len(got_z)} zones read, {len(c.zones)} written (paths {[p for p, _ in got_z]})")
        return fails
    for (p, n), z in zip(got_z, c.zones):
        content, tag, marker = _expect_zone_text(z)
        v = n.value
        if v.content != content:
            fails.append(f"{where}: zone {p}: content {v.content!r} != written {content!r}")
        if (v.info_tag or None) != tag:
            fails.append(f"{where}: zone {p}: info tag {v.info_tag!r} != written {tag!r}")
        if v.fence_marker != marker:
            fails.append(f"{where}: zone {p}: fence {v.fence_marker!r} != written {marker!r}")
    got_keys = [(p, n) for p, n in _walk(doc) if not (isinstance(n, Assignment) and isinstance(n.value, LiteralZoneValue))]
    want = [k for k, _ in c.expect_keys]
    have = [p for p, _ in got_keys]
    if have != want:
        fails.append(f"{where}: neighbouring fields moved: read {have} expected {want}")
    else:
        for (p, n), (_, kind) in zip(got_keys, c.expect_keys):
            if kind == "assign-nfd" and n.value != "caf\u00e9":
                fails.append(f"{where}: text outside the fences is not normalised as usual: {p} = {n.value!r}")
    return fails


def check_text(c: Case, text: str, where: str) -> list[str]:
    fails = []
    zs = scan_zones(text)
    if len(zs) != len(c.zones):
        return [f"{where}: {len(zs)} fenced zones in the output text, {len(c.zones)} written"]
    for (ind, flen, tag, body), z in zip(zs, c.zones):
        exp_tag = z.tag.strip() if z.tag else ""
        if body != z.lines:
            fails.append(f"{where}: bytes between the fences changed: {body!r} != written {z.lines!r}")
        if flen != z.fence:
            fails.append(f"{where}: fence length {flen} != written {z.fence}")
        if tag != exp_tag:
            fails.append(f"{where}: info tag {tag!r} != written {exp_tag!r}")
        if ind != "  " * z.depth:
            fails.append(f"{where}: fence line indent {len(ind)} != node indent {2 * z.depth}")
    return fails


def _zones_in_json(obj) -> list[dict]:
    out = []
    if isinstance(obj, dict):
        if obj.get("__literal_zone__"):
            out.append(obj)
        else:
            for v in obj.values():
                out.extend(_zones_in_json(v))
    elif isinstance(obj, list):
        for v in obj:
            out.extend(_zones_in_json(v))
    return out


_CASES: list[Case] = []
_TOOLS_EVERY = 1


def _one(idx: int):
    from octave_mcp.core.emitter import emit
    from octave_mcp.core.parser import parse, parse_with_warnings
    from octave_mcp.core.sealer import seal_document

    c = _CASES[idx]
    render(c)
    fails: list[str] = []
    nontrivial = any(z.lines for z in c.zones)
    try:
        doc = parse(c.text)
    except Exception as e:  # noqa: BLE001
        return True, f"reader refuses a document with a well-formed zone: {type(e).__name__}: {str(e)[:160]} | input {c.text!r} | {c.label}", nontrivial, idx
    fails += check_doc(c, doc, "parse")
    try:
        doc_w, _ = parse_with_warnings(c.text)
        fails += check_doc(c, doc_w, "parse_with_warnings")
    except Exception as e:  # noqa: BLE001
        fails.append(f"parse_with_warnings refuses what parse accepts: {type(e).__name__}")
    canon = emit(doc)
    fails += check_text(c, canon, "emit")
    try:
        doc2 = parse(canon)
        fails += check_doc(c, doc2, "parse(emit)")
        c2 = emit(doc2)
        if c2 != canon:
            fails.append(f"emit(parse(emit)) differs from emit: {c2!r} vs {canon!r}")
    except Exception as e:  # noqa: BLE001
        fails.append(f"canonical text refused on re-read: {type(e).__name__}: {str(e)[:120]} | canonical {canon!r}")
    try:
        sealed = emit(seal_document(doc))
        fails += check_text(c, sealed, "seal")
    except Exception as e:  # noqa: BLE001
        fails.append(f"seal: {type(e).__name__}: {str(e)[:100]}")
    if idx % _TOOLS_EVERY == 0:
        fails += _tools(c)
    if fails:
        fails.sort(key=lambda f: bool(BLANK_COLLAPSE.search(f)))  # the known blank-line collapse never hides another failure of the same case
        return True, f"{fails[0]} | input {c.text!r} | {c.label}", nontrivial, idx
    return False, "", nontrivial, idx


def _tools(c: Case) -> list[str]:
    from octave_mcp.mcp.eject import EjectTool
    from octave_mcp.mcp.validate import ValidateTool
    from octave_mcp.mcp.write import WriteTool

    fails = []
    for fix in (False, True):
        r = asyncio.run(ValidateTool().execute(content=c.text, schema="META", fix=fix))
        if r.get("status") == "success" and isinstance(r.get("canonical"), str):
            fails += check_text(c, r["canonical"], f"octave_validate(fix={fix}).canonical")
        else:
            fails.append(f"octave_validate(fix={fix}) did not return canonical text: {str(r.get('errors') or r.get('status'))[:120]}")
    d = tempfile.mkdtemp(prefix="vf-c05-")
    try:
        for lenient in (False, True):
            p = os.path.join(d, f"z{int(lenient)}.oct.md")
            r = asyncio.run(WriteTool().execute(target_path=p, content=c.text, lenient=lenient))
            if r.get("status") == "success" and os.path.exists(p):
                with open(p, encoding="utf-8", newline="") as f:
                    fails += check_text(c, f.read(), f"octave_write(lenient={lenient}) file")
                # a later change request that does not mention the zone leaves it alone
                r2 = asyncio.run(WriteTool().execute(target_path=p, changes={"ADDED_LATER": "v"}))
                if r2.get("status") == "success":
                    with open(p, encoding="utf-8", newline="") as f:
                        fails += check_text(c, f.read(), f"octave_write(changes) file (lenient={lenient})")
            else:
                fails.append(f"octave_write(lenient={lenient}) failed: {str(r.get('errors'))[:120]}")
    finally:
        shutil.rmtree(d, ignore_errors=True)
    r = asyncio.run(EjectTool().execute(content=c.text, schema="META", mode="canonical", format="octave"))
    if isinstance(r.get("output"), str):
        fails += check_text(c, r["output"], "octave_eject(canonical, octave)")
    r = asyncio.run(EjectTool().execute(content=c.text, schema="META", mode="canonical", format="json"))
    try:
        zs = _zones_in_json(json.loads(r["output"]))
        if len(zs) != len(c.zones):
            fails.append(f"octave_eject(json): {len(zs)} __literal_zone__ objects for {len(c.zones)} zones")
        else:
            for zj, z in zip(zs, c.zones):
                content, tag, marker = _expect_zone_text(z)
                if zj.get("content") != content or (zj.get("info_tag") or None) != tag or zj.get("fence_marker") != marker:
                    fails.append(f"octave_eject(json): zone object {zj!r} != written ({content!r}, {tag!r}, {marker!r})")
    except Exception as e:  # noqa: BLE001
        fails.append(f"octave_eject(json) output unreadable: {type(e).__name__}")
    return fails


BLANK_COLLAPSE = re.compile(r"bytes between the fences changed: \[\] != written \[''\]")


def classify(text: str, c: Case) -> str:
    """witness key: clause | rendering-level features of the case (used by the known-findings file)"""
    feats = []
    if any(z.lines == [""] for z in c.zones) and BLANK_COLLAPSE.search(text):
        feats.append("one-blank-line-collapsed")
    if any(z.bare for z in c.zones):
        sole = all(z.bare and c.before is None and c.after is None for z in c.zones) and len(c.zones) == 1
        feats.append("bare-zone-sole-child" if sole else "bare-zone-with-siblings")
    if any(z.tag and (z.tag != z.tag.strip() or unicodedata.normalize("NFC", z.tag) != z.tag or not re.fullmatch(r"[A-Za-z0-9_.+\-]+", z.tag)) for z in c.zones):
        feats.append("unusual-tag")
    if any(z.depth > 0 and not z.bare for z in c.zones):
        feats.append("nested-assignment-zone")
    clause = text.split(":", 1)[0][:40]
    return f"{clause}|{','.join(feats) if feats else 'plain'}"


def replay(seed: int, thorough: bool, idx: int):
    global _CASES
    _CASES = list(cases(seed, thorough))
    failed, text, _, _ = _one(idx)
    return failed, text or "zones pass through every pipeline unchanged for this case"


def ob_b1(ctx: Ctx) -> Outcome:
    global _CASES, _TOOLS_EVERY
    _CASES = list(cases(ctx.seed, ctx.thorough))
    _TOOLS_EVERY = 1 if ctx.thorough else 3
    n = len(_CASES)
    res = sweep(_one, range(n), ctx.cores, chunk=25)
    wits, seen = [], set()
    for idx, text in res["failures"][:5000]:
        key = classify(text, _CASES[idx])
        if key in seen:
            continue
        seen.add(key)
        wits.append(Witness(what=text[:1400], input={"case_index": idx, "label": _CASES[idx].label}, key=key, replay={"runner": "props.C05_b:replay", "args": {"seed": ctx.seed, "thorough": ctx.thorough, "idx": idx}}, confirmed=True))
    extra = dict(
        bound=f"{n} generated documents: {len(LINES)} content-line kinds (tabs, NFD, backslashes, quotes, every operator and ASCII alias, ::, KEY:, ===END===, ---, shorter backtick runs, indented / trailing-space / blank lines, U+00A0, U+2028, form feed; a CR before the newline is excluded: files are read with universal newlines) x fence lengths 3..6 x tag; empty and blank-line zones; zones as assignment values at depth 0..3 and as bare block children at depth 1..3 with every neighbour kind before/after (assignment with NFD text, list, block, comment, section, none); unusual info tags; two adjacent zones; seeded random mixes up to 3 zones / 5 lines; pipelines: parse, parse_with_warnings, emit, parse∘emit, seal, octave_validate(fix off/on), octave_write(strict/lenient, then a changes request), octave_eject(canonical: octave, json)" + ("" if ctx.thorough else " (tools on every 3rd case in quick)"),
        evaluations=res["evaluations"],
        distinct_nontrivial=res["nontrivial"],
        rule="a case is one generated document through all pipelines; distinct by generator index; non-trivial: at least one zone has content",
        samples=[_render_text(_CASES[i]) for i in (0, n // 2, n - 1)],
        failing_documents=len(res["failures"]),
    )
    if wits:
        return Outcome.refuted("real pipelines vs generator", wits, **extra)
    return Outcome.ok("real pipelines vs generator", **extra)


def _render_text(c: Case) -> str:
    render(c)
    return c.text


ob_b1.wants_all_cores = True
