"""Model-driven bounded sweeps shared by C01, C02, C03, C07 (B tier): documents from the independent
content model (verif.bounded.model), rendered canonically and in lenient spellings, through the REAL
parse / parse_with_warnings / emit. Failures are classified by structural FEATURES OF THE MODEL
DOCUMENT (never by the parser's output) so that known findings are recognised narrowly."""
from __future__ import annotations

import collections
import itertools
import random
import unicodedata
import re
from typing import Any

from verif.bounded import model as M
from verif.bounded.sweep import sweep
from verif.common import Ctx, Outcome, Witness

_DOCS: dict[tuple, list] = {}

RESERVED_KEYS = {"true", "false", "null", "vs"}
ANN_QUAL = re.compile(r"[A-Za-z_][A-Za-z0-9_.\-]*<(?:[A-Za-z0-9_,]*,[A-Za-z0-9_,]*)?>")


def docs(depth: int, sib: int, seed: int, limit: int) -> list:
    k = (depth, sib, seed, limit)
    if k not in _DOCS:
        _DOCS[k] = list(itertools.islice(M.documents(depth, sib, seed=seed, limit=limit), limit))
    return _DOCS[k]


# ---- structural features of a model document (for known-finding matching) ------------------------------------------


def _values(v: Any):
    yield v
    if isinstance(v, M.MList):
        for it in v.items:
            yield from _values(it)
    elif isinstance(v, M.MMap):
        for _, x in v.pairs:
            yield from _values(x)


def features(m: M.MDoc) -> set[str]:
    f: set[str] = set()
    if m.frontmatter is not None and m.grammar_version is not None:
        f.add("frontmatter+sentinel")

    def strings(v):
        for x in _values(v):
            if isinstance(x, M.MStr):
                yield x.text
            elif isinstance(x, M.MRaw):
                yield x.text
                if isinstance(x.expect, str):
                    yield x.expect

    def scan_value(v):
        for s in strings(v):
            if ANN_QUAL.fullmatch(s) or re.search(r"[A-Za-z_][A-Za-z0-9_.\-]*\[[^\]]*\]", s) and False:
                f.add("annotation-qualifier")
            if re.search(r"[\n\t][^\x00-\x7f]", s):
                f.add("nfc-escape")
        for x in _values(v):
            if isinstance(x, M.MRaw) and re.fullmatch(r"[A-Za-z_][A-Za-z0-9_]*\[[^\]]*\]", x.text or "") and isinstance(x.expect, str) and ANN_QUAL.fullmatch(x.expect):
                f.add("annotation-qualifier")
            if isinstance(x, M.MMap) and any(k in ("REGEX", "PATTERN") for k, _ in x.pairs):
                f.add("constructor-key-in-map")
            if isinstance(x, M.MMap) and any(k in RESERVED_KEYS for k, _ in x.pairs):
                f.add("reserved-word-key")
            if isinstance(x, M.MList) and len(x.items) == 1 and isinstance(x.items[0], M.MRaw) and "∧" in (x.items[0].text or "") and (x.items[0].text or "").startswith("["):
                f.add("single-bracket-item-with-and")

    def dup_keys(nodes):
        ks = [n.key for n in nodes if isinstance(n, (M.MAssign, M.MBlock))]
        # repeated section markers (same id and name) are repeated sibling keys for the dict-shaped views too
        ks += [("§", getattr(n, "section_id", None), n.key) for n in nodes if isinstance(n, M.MSection)]
        return len(ks) != len(set(ks))

    def comments_empty(cs):
        return any(c.strip() == "" for c in cs or [])

    for k, v in m.meta:
        if k in RESERVED_KEYS:
            f.add("reserved-word-key")
        if isinstance(v, list):
            for k2, v2 in v:
                if k2 in RESERVED_KEYS:
                    f.add("reserved-word-key")
                scan_value(v2)
        else:
            scan_value(v)
    if comments_empty(m.trailing_comments):
        f.add("empty-comment")

    def walk(nodes, depth, top):
        for i, n in enumerate(nodes):
            last = i == len(nodes) - 1
            lc = getattr(n, "leading_comments", None) or []
            if comments_empty(lc):
                f.add("empty-comment")
            if isinstance(n, M.MComment):
                if n.text.strip() == "":
                    f.add("empty-comment")
                continue
            if isinstance(n, M.MAssign):
                if n.key in RESERVED_KEYS:
                    f.add("reserved-word-key")
                if n.trailing_comment is not None and n.trailing_comment.strip() == "":
                    f.add("empty-comment")
                scan_value(n.value)
                for x in _values(n.value):
                    if isinstance(x, M.MMap) and any(k in RESERVED_KEYS for k, _ in x.pairs):
                        f.add("reserved-word-key")
                    if isinstance(x, M.MMap) and any(k in CONSTRUCTOR_KEYS for k, _ in x.pairs):
                        f.add("constructor-key-in-map")
            if isinstance(n, M.MBareZone):
                if i != 0 or not last or lc:
                    f.add("bare-zone-family")
            if isinstance(n, (M.MBlock, M.MSection)):
                if n.key in RESERVED_KEYS:
                    f.add("reserved-word-key")
                kids = n.children
                if not kids and depth >= 1 and not last:
                    f.add("empty-nested-block-with-sibling")
                if not kids and depth == 0:
                    # comment right after an empty top-level block
                    nxt = nodes[i + 1] if not last else None
                    if (nxt is not None and (getattr(nxt, "leading_comments", None) or isinstance(nxt, M.MComment))) or (last and top and m.trailing_comments):
                        f.add("comment-after-empty-top-block")
                if kids and depth == 0:
                    nxt = nodes[i + 1] if not last else None
                    if (nxt is not None and (getattr(nxt, "leading_comments", None) or isinstance(nxt, M.MComment))) or (last and top and m.trailing_comments):
                        f.add("col0-comment-after-indented-body")
                # a nested body that ends in an indented body, followed at the outer level by a comment
                walk(kids, depth + 1, False)

    def walk_dups(nodes):
        if dup_keys(nodes):
            f.add("duplicate-sibling-keys")
        for n in nodes:
            if isinstance(n, (M.MBlock, M.MSection)):
                walk_dups(n.children)

    walk(m.body, 0, True)
    walk_dups(m.body)
    return f


CONSTRUCTOR_KEYS = ("REGEX", "ENUM", "TYPE", "PATTERN", "NEVER", "ALWAYS")  # parser.KNOWN_CONSTRUCTORS

KNOWN_FEATURES = {
    "frontmatter+sentinel", "empty-nested-block-with-sibling", "col0-comment-after-indented-body", "comment-after-empty-top-block", "reserved-word-key",
    "single-bracket-item-with-and", "annotation-qualifier", "empty-comment", "nfc-escape", "duplicate-sibling-keys", "constructor-key-in-map",
}

# ---- strict-profile recogniser (C03), written from the property text ----------------------------------------------------

ASCII_OPS = ["->", "<->", " vs ", "~", "|", "&", "+"]


def strict_profile_problems(text: str) -> list[str]:
    """Unicode operators only outside strings/comments/zones; no space around ::; two spaces of indentation
    per level; explicit ===NAME=== and ===END===; no tabs or trailing whitespace outside literal zones; a
    single final newline."""
    out = []
    if not text.endswith("\n") or text.endswith("\n\n"):
        out.append("not exactly one final newline")
    lines = text[:-1].split("\n") if text.endswith("\n") else text.split("\n")
    in_zone = None
    in_front = False
    seen_env = False
    prev_indent = 0
    for i, ln in enumerate(lines):
        if in_zone is not None:
            if re.fullmatch(r" *" + re.escape(in_zone) + r" *", ln) or ln.strip() == in_zone:
                in_zone = None
            continue
        if i == 0 and ln == "---":
            in_front = True
            continue
        if in_front:
            if ln == "---":
                in_front = False
            continue
        mz = re.fullmatch(r"( *)(`{3,})([^`]*)", ln)
        if mz:
            in_zone = mz.group(2)
            continue
        if "\t" in ln:
            out.append(f"tab on line {i + 1}")
        if ln != ln.rstrip(" "):
            out.append(f"trailing whitespace on line {i + 1}: {ln!r}")
        if re.fullmatch(r"===[A-Za-z_][A-Za-z0-9_]*===", ln):
            seen_env = True
        ind = len(ln) - len(ln.lstrip(" "))
        if ln.strip() and ind % 2 != 0:
            out.append(f"odd indentation on line {i + 1}")
        # strip strings and comments before looking at operators / spacing
        code = re.sub(r'"(?:[^"\\]|\\.)*"', '""', ln)
        code = re.sub(r"//.*$", "", code)
        if re.search(r"\s::|::\s", code):
            out.append(f"space around :: on line {i + 1}: {ln!r}")
        for op in ("->", "<->", "~", "|", "&"):
            if op in code:
                out.append(f"ASCII operator {op} outside strings/comments on line {i + 1}: {ln!r}")
        if re.search(r"(?<![A-Za-z0-9_.\-/])vs(?![A-Za-z0-9_.\-/])", code):
            out.append(f"ASCII operator vs on line {i + 1}")
        if re.search(r"(?<![eE0-9])\+|\+(?![0-9])", code) and not re.search(r"\d\+[A-Za-z0-9.]", code):
            out.append(f"ASCII operator + on line {i + 1}: {ln!r}")
        if re.match(r" *#", code):
            out.append(f"ASCII section marker # on line {i + 1}")
    if not seen_env:
        out.append("no explicit ===NAME=== envelope")
    if "===END===" not in lines:
        out.append("no explicit ===END===")
    return out


# ---- one document ---------------------------------------------------------------------------------------------------------


def _receipt_counters(inj, warns):
    want = collections.Counter(
        ("normalization", '"""' if r.kind == "triple_quote" else r.original_text, r.line, r.column) if r.kind in ("ascii_alias", "triple_quote") else ("multi_word_coalesce", r.original_text, r.line, r.column)
        for r in inj
    )
    got = collections.Counter(
        ("normalization", w.get("original"), w.get("line"), w.get("column"))
        if w.get("type") == "normalization"
        else (w.get("subtype"), " ".join(w.get("original") or []) if isinstance(w.get("original"), list) else w.get("original"), w.get("line"), w.get("column"))
        for w in warns
        if w.get("type") in ("normalization", "lenient_parse")
    )
    return want, got


_CFG: dict = {}


def _one(idx: int):
    from octave_mcp.core.emitter import emit
    from octave_mcp.core.parser import parse, parse_with_warnings

    cfg = _CFG
    m = docs(*cfg["docs"])[idx]
    feats = features(m)
    which = cfg["which"]
    c0 = M.render_canonical(m)
    fails: list[tuple[str, str, str]] = []  # (property clause, what, text)
    rng = random.Random(cfg["seed"] * 1000003 + idx)
    texts = [(c0, [], True)]
    if cfg["lenient"]:
        for t, inj in M.render_all_lenient(m, cfg["lenient"], rng):
            if t != c0:
                texts.append((t, inj, False))
    canon_ref = None
    for x, inj, is_canon in texts:
        try:
            d, warns = parse_with_warnings(x)
        except Exception as e:  # noqa: BLE001
            fails.append(("accept", f"{'canonical' if is_canon else 'lenient'} rendering refused by the lenient reader: {type(e).__name__}: {e}", x))
            continue
        try:
            c = emit(d)
        except Exception as e:  # noqa: BLE001
            fails.append(("emit", f"emit raised {type(e).__name__}: {e}", x))
            continue
        if is_canon:
            canon_ref = c
        if "C01" in which:
            try:
                d2 = parse(c)
                c2 = emit(d2)
                if c2 != c:
                    fails.append(("C01.idempotent", f"second canonicalisation differs: first {c!r} second {c2!r}", x))
            except Exception as e:  # noqa: BLE001
                fails.append(("C01.readable", f"canonical text {c!r} is refused by the strict reader: {type(e).__name__}: {e}", x))
                d2 = None
        else:
            d2 = None
        if "C02" in which:
            df = M.diff_model_vs_ast(m, d)
            if df:
                fails.append(("C02.read", f"content read differs from content written: {df[0]}", x))
            elif d2 is not None or "C01" not in which:
                try:
                    d2 = d2 if d2 is not None else parse(c)
                    df2 = M.diff_model_vs_ast(m, d2)
                    if df2:
                        fails.append(("C02.canonical", f"content of the canonical text differs: {df2[0]} (canonical {c!r})", x))
                except Exception:  # noqa: BLE001
                    pass
        if "C03" in which:
            if canon_ref is not None and c != canon_ref:
                fails.append(("C03.converge", f"lenient spelling canonicalises to different bytes: {c!r} vs {canon_ref!r}", x))
            sp = strict_profile_problems(c)
            if sp:
                fails.append(("C03.strict", f"canonical text is not in the strict profile: {sp[0]}", x))
        if "C07" in which:
            want, got = _receipt_counters(inj, warns)
            # rendering-level class: the reader reports columns in the NFC-normalised line, so a rewrite that
            # follows a decomposed sequence on the same source line is reported some columns to the left
            src_lines = x.split("\n")
            nfd_lines = {i + 1 for i, ln in enumerate(src_lines) if unicodedata.normalize("NFC", ln) != ln}
            shifted = set()
            for k in (want - got):
                if len(k) >= 4 and k[2] in nfd_lines and any(g[:3] == k[:3] and isinstance(g[3], int) and g[3] < k[3] for g in (got - want) if len(g) >= 4):
                    shifted.add(k[:3])
            for k in (want - got):
                if k[:3] in shifted:
                    fails.append(("C07.nfd-column", f"receipt column is counted in the NFC-normalised line, not in the input line: expected {k}; receipts {sorted(got, key=str)[:5]}", x))
                    continue
                fails.append(("C07.missing", f"rewrite without receipt: {k}; receipts {sorted(got, key=str)[:5]}", x))
            for k in (got - want):
                if k[0] in ("duplicate_key", "constructor_misuse", "pattern_autoquote", "bare_line_dropped") and not is_canon:
                    continue
                if k[:3] in shifted:
                    continue
                fails.append(("C07.spurious" if not is_canon else "C07.canonical", f"receipt without a rewrite{' on canonical input' if is_canon else ''}: {k}", x))
            # report a genuinely new class before the known rendering-level one
            fails.sort(key=lambda f: f[0] == "C07.nfd-column")
    nontrivial = len(m.body) > 0 or bool(m.meta)
    if fails:
        clause, what, text = fails[0]
        known = sorted(feats & KNOWN_FEATURES)
        return True, f"{clause}: {what} | input {text!r} | model features {known}", nontrivial, idx
    return False, "", nontrivial, idx


def configure(which: set[str], docs_cfg: tuple, lenient: int, seed: int) -> None:
    _CFG.clear()
    _CFG.update(which=which, docs=docs_cfg, lenient=lenient, seed=seed)


def replay_doc(which, docs_cfg, lenient, seed, idx):
    configure(set(which), tuple(docs_cfg), lenient, seed)
    r = _one(idx)
    return r[0], r[1] or "document behaves as the property says"


def run(ctx: Ctx, which: set[str], quick_limit: int, thorough_limit: int, lenient_quick: int, lenient_thorough: int) -> Outcome:
    docs_cfg = (2, 2, ctx.seed, thorough_limit) if ctx.thorough else (2, 2, ctx.seed, quick_limit)
    if ctx.thorough:
        docs_cfg = (3, 3, ctx.seed, thorough_limit)
    lenient = lenient_thorough if ctx.thorough else lenient_quick
    configure(which, docs_cfg, lenient, ctx.seed)
    n = len(docs(*docs_cfg))
    res = sweep(_one, range(n), ctx.cores, chunk=40)
    wits = []
    for idx, text in res["failures"][:3000]:
        clause = text.split(":", 1)[0]
        m = docs(*docs_cfg)[idx]
        feats = sorted(features(m) & KNOWN_FEATURES)
        key = f"{clause}|{','.join(feats) if feats else 'no-known-feature'}"
        wits.append(Witness(what=text[:1500], input={"doc_index": idx, "label": m.label, "canonical": M.render_canonical(m)}, key=key,
                            replay={"runner": "props.docs_b:replay_doc", "args": {"which": sorted(which), "docs_cfg": list(docs_cfg), "lenient": lenient, "seed": ctx.seed, "idx": idx}}, confirmed=True))
    # one witness per distinct key is enough for reporting
    seen = set()
    uniq = []
    for w in wits:
        if w.key not in seen:
            seen.add(w.key)
            uniq.append(w)
    extra = dict(
        bound=f"{n} model documents from verif.bounded.model.documents(max_depth={docs_cfg[0]}, max_siblings={docs_cfg[1]}, seed={docs_cfg[2]}, limit={docs_cfg[3]}) (systematic stages: every value kind x 8 positions, keys, envelope, comments, duplicate keys, sections/blocks, zones; then tree bodies), each in canonical rendering and up to {lenient} lenient renderings (exhaustive product of rewrite sites when it fits, else every single-site deviation + seeded samples)",
        evaluations=res["evaluations"],
        distinct_nontrivial=res["distinct"],
        rule="a case is a model document (all its renderings); distinct by enumeration index; non-trivial: has a body node or META",
        samples=[M.render_canonical(docs(*docs_cfg)[i]) for i in (0, min(n - 1, 1500), n - 1)],
        failing_documents=len(res["failures"]),
    )
    if uniq:
        return Outcome.refuted("real parse/emit vs content model", uniq, detail=f"{len(res['failures'])} failing documents in {len(uniq)} classes", **extra)
    return Outcome.ok("real parse/emit vs content model", **extra)


# ---- C03.B2: the TOOLS are canonicalisers too: octave_validate and octave_write(lenient) on lenient renderings --------------
def _tool_one(idx: int):
    import asyncio
    import os
    import random as _random
    import shutil
    import tempfile

    from octave_mcp.core.emitter import emit
    from octave_mcp.core.parser import parse_with_warnings
    from octave_mcp.mcp.validate import ValidateTool
    from octave_mcp.mcp.write import WriteTool

    m = docs(*_CFG["docs"])[idx]
    feats = features(m)
    if feats & KNOWN_FEATURES:
        return False, "", False, idx
    rng = _random.Random(_CFG["seed"] * 131 + idx)
    try:
        c0 = M.render_canonical(m)
        want = emit(parse_with_warnings(c0)[0])
    except Exception:  # noqa: BLE001
        return False, "", False, idx
    d = tempfile.mkdtemp(prefix="vf-c03t-")
    try:
        n = 0
        for t, inj in itertools.islice(M.render_all_lenient(m, 6, rng), 6):
            try:
                if emit(parse_with_warnings(t)[0]) != want:
                    continue  # the reader route's own divergence is C03.B1's subject
            except Exception:  # noqa: BLE001
                continue
            n += 1
            r = asyncio.run(ValidateTool().execute(content=t, schema="META"))
            if r.get("status") == "success" and r.get("canonical") != want:
                return True, f"C03.tool: octave_validate canonicalises a lenient spelling to different bytes: {r.get('canonical')!r} vs {want!r} | input {t!r}", True, idx
            p = os.path.join(d, f"w{n}.oct.md")
            r = asyncio.run(WriteTool().execute(target_path=p, content=t, lenient=True))
            if r.get("status") == "success":
                got = open(p, encoding="utf-8", newline="").read()  # the bytes as written (no newline translation)
                if got != want:
                    return True, f"C03.tool: octave_write(lenient) writes different bytes for a lenient spelling: {got!r} vs {want!r} | input {t!r}", True, idx
            else:
                return True, f"C03.tool: octave_write(lenient) refuses a spelling the lenient reader accepts: {[e.get('code') for e in r.get('errors', [])]} | input {t!r}", True, idx
        return False, "", n > 0, idx
    finally:
        shutil.rmtree(d, ignore_errors=True)


def replay_tool_doc(docs_cfg, seed, idx):
    configure({"C03"}, tuple(docs_cfg), 6, seed)
    r = _tool_one(idx)
    return r[0], r[1] or "tools canonicalise the lenient spellings to the canonical bytes"


def run_tools(ctx: Ctx, limit_quick: int, limit_thorough: int) -> Outcome:
    from verif.bounded.sweep import sweep

    docs_cfg = (2, 2, ctx.seed, limit_thorough if ctx.thorough else limit_quick)
    configure({"C03"}, docs_cfg, 6, ctx.seed)
    n = len(docs(*docs_cfg))
    step = 3 if ctx.thorough else 5
    res = sweep(_tool_one, range(0, n, step), ctx.cores, chunk=20)
    wits, seen = [], set()
    for idx, text in res["failures"][:400]:
        key = text.split(":", 2)[1].strip()[:60]
        if key in seen:
            continue
        seen.add(key)
        wits.append(Witness(what=text[:1100], input={"doc_index": idx}, key=f"tool|{key}", replay={"runner": "props.docs_b:replay_tool_doc", "args": {"docs_cfg": list(docs_cfg), "seed": ctx.seed, "idx": idx}}, confirmed=True))
    nf, fbad = freedoms_through_tools()
    for on, tool, what in fbad[:6]:
        wits.append(Witness(what=f"C03.tool: freedoms {on} via {tool}: {what}", input={"freedoms": on}, key=f"freedoms|{tool}|{','.join(on)[:60]}", replay={"runner": "props.docs_b:replay_freedoms", "args": {}}, confirmed=True))
    extra = dict(bound=f"every {step}th of {n} model documents (those without a known-finding feature), up to 6 lenient renderings each (incl. all-sites-at-once), through octave_validate(schema=META) and octave_write(lenient=True): the canonical text / the written file must equal the canonical bytes of the canonical rendering; plus all {nf} subsets of 8 documented freedoms (trailing spaces on envelope lines, space before / after ::, 4-space indentation, blank lines, omitted END, ASCII arrow, trailing spaces) on one document through the reader and both tools", evaluations=res["evaluations"] + nf, distinct_nontrivial=res["nontrivial"], rule="a case is one model document with its renderings through both tools")
    if wits:
        return Outcome.refuted("real tools", wits[:12], **extra)
    return Outcome.ok("real tools", **extra)


# hand-built product of the documented freedoms on one small document (every subset), through both tools
def freedom_texts():
    base = [("env", "===DOC==="), ("meta", "META:"), ("m1", "  TYPE::T"), ("a", "A::x"), ("b", "B:"), ("c", "  C::1"), ("l", "L::[a,b]"), ("f", "F::x→y"), ("end", "===END===")]
    canon = "\n".join(t for _, t in base) + "\n"
    freedoms = ("env-trailing", "space-before-assign", "space-after-assign", "indent4", "blank-lines", "no-end", "ascii-arrow", "line-trailing")
    for mask in range(1 << len(freedoms)):
        on = {f for i, f in enumerate(freedoms) if mask >> i & 1}
        out = []
        for name, t in base:
            if name == "end" and "no-end" in on:
                continue
            if name in ("env", "end") and "env-trailing" in on:
                t = t + "   "
            if "::" in t:
                k, v = t.split("::", 1)
                t = k + (" " if "space-before-assign" in on else "") + "::" + (" " if "space-after-assign" in on else "") + v
            if t.startswith("  ") and "indent4" in on:
                t = "  " + t
            if "ascii-arrow" in on:
                t = t.replace("→", "->")
            if "line-trailing" in on and name not in ("env", "end"):
                t = t + "  "
            out.append(t)
            if "blank-lines" in on and name in ("env", "a", "c"):
                out.append("")
        yield sorted(on), "\n".join(out) + "\n", canon


def freedoms_through_tools():
    """[(freedoms, tool, what)] for every subset whose result differs from the canonical document's"""
    import asyncio
    import os
    import shutil
    import tempfile

    from octave_mcp.core.emitter import emit
    from octave_mcp.core.parser import parse_with_warnings
    from octave_mcp.mcp.validate import ValidateTool
    from octave_mcp.mcp.write import WriteTool

    bad, n = [], 0
    d = tempfile.mkdtemp(prefix="vf-c03f-")
    try:
        for on, text, canon in freedom_texts():
            want = emit(parse_with_warnings(canon)[0])
            n += 1
            try:
                if emit(parse_with_warnings(text)[0]) != want:
                    bad.append((on, "parse_with_warnings+emit", "different bytes"))
                    continue
            except Exception as e:  # noqa: BLE001
                bad.append((on, "parse_with_warnings", f"{type(e).__name__}: {e}"))
                continue
            r = asyncio.run(ValidateTool().execute(content=text, schema="META"))
            if r.get("status") != "success" or r.get("canonical") != want:
                bad.append((on, "octave_validate", f"status {r.get('status')}, canonical {str(r.get('canonical'))[:80]!r}"))
            p = os.path.join(d, f"f{n}.oct.md")
            r = asyncio.run(WriteTool().execute(target_path=p, content=text, lenient=True))
            got = open(p, encoding="utf-8", newline="").read() if os.path.exists(p) else None
            if r.get("status") != "success" or got != want:
                bad.append((on, "octave_write(lenient)", f"status {r.get('status')}, file {str(got)[:90]!r}"))
        return n, bad
    finally:
        shutil.rmtree(d, ignore_errors=True)


def replay_freedoms():
    n, bad = freedoms_through_tools()
    return bool(bad), "; ".join(f"{on} via {tool}: {what}" for on, tool, what in bad[:3]) or f"{n} subsets of the documented freedoms converge through the reader and both tools"
