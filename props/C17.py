"""C17 — base_hash is a real compare-and-swap; failed and dry calls change nothing."""
from __future__ import annotations

import itertools

from props import fsproto as FP
from verif.common import Ctx, Ob, Outcome, Witness

PROPERTY = "C17"
LEVEL = "other"
LEVEL_TEXT = "sequential clauses are decided on the real AST: every mode compares hash(text read) with base_hash and returns E_HASH before anything else (F2); the write block re-reads and compares immediately before os.replace and its failing branch unlinks the temp file (shared protocol contract); no file-system mutation can happen before the dry-run return or in any callee, so corrections_only calls and every error returned before the write block leave the file system untouched (F1); inside the write block every error exit removes the temp file and the directories it created (protocol + effect closure); execute has no await, so calls on one loop are serial (F3). The concurrent clause (at most one of several writers holding the same base_hash succeeds) is stated as a lemma over the per-step contracts [read, compare, write temp, re-read, compare, replace] and REFUTED by exhaustive interleaving of two such step sequences: the counter-schedule is replayed on the real code (known finding: check-then-replace is not atomic without a lock). Histories and second-actor interleavings are bounded"
LEVEL_NOTE = "the lemma's step contracts are read off the protocol obligation (F), its interleaving search is exhaustive for two writers (924 schedules); absent-target CAS is the documented behaviour ('when file exists') and a known finding against the property's wording"
TECHNIQUE = "guard/protocol/effect-order contracts decided on the real AST and effect closure; lemma over the step contracts with exhaustive two-writer interleaving, counter-schedule replayed through the real tool; bounded histories against a register model and second-actor injection at every call boundary"
EXPLANATION = "C17: F1 dry/failed calls cannot mutate, F2 CAS guards, F3 no await, protocol obligations shared with C16, L1 two-writer lemma, B1 histories vs register model, B2 second actor at every call boundary."
ASSUMPTIONS = ["os.replace atomic; reads see either the old or the new file", "the two-writer lemma abstracts each writer to the six protocol steps established by the F obligations"]
TRUSTED_BASE = ["verif.frames", "verif.bounded.fsharness"]
FUNCS = ["octave_mcp.mcp.write:WriteTool.execute", "octave_mcp.core.file_ops:atomic_write_octave"]

STEPS = ["read", "compare", "write_temp", "reread", "compare2", "replace"]


def two_writer_schedules():
    """all interleavings of two writers' six steps on a register; each writer holds base = hash(initial)"""
    bad = []
    n = 0
    for pos in itertools.combinations(range(12), 6):
        n += 1
        sched = ["B"] * 12
        for p in pos:
            sched[p] = "A"
        reg = "v0"
        st = {w: {"i": 0, "seen": None, "seen2": None, "ok": None} for w in "AB"}
        for w in sched:
            s = st[w]
            if s["ok"] is False:
                continue
            step = STEPS[s["i"]]
            s["i"] += 1
            if step == "read":
                s["seen"] = reg
            elif step == "compare":
                if s["seen"] != "v0":
                    s["ok"] = False
            elif step == "reread":
                s["seen2"] = reg
            elif step == "compare2":
                if s["seen2"] != "v0":
                    s["ok"] = False
            elif step == "replace":
                reg = "v" + w
                s["ok"] = True
        if st["A"]["ok"] and st["B"]["ok"]:
            bad.append("".join(sched))
    return n, bad


def replay_two_writers():
    """the counter-schedule on the real tool: writer B performs its whole write between A's final re-read and A's replace"""
    from props import C17_b
    from verif.bounded import fsharness as F

    scn = next(s for s in F.scenarios() if s["name"] == "wt_overwrite_hashok")
    tr = F.run_trace(scn)
    if tr.get("harness_error") or "calls" not in tr:
        return False, f"replay harness could not run: {str(tr.get('harness_error'))[:200]}"
    names = [c[1] for c in tr["calls"]]
    k = len(names) - 1 - names[::-1].index("os.replace")
    other = {"kind": "write_tool", "call": {"content": C17_b.OTHER_TEXT, "base_hash": scn["call"]["base_hash"]}}
    r = F.run_act(scn, k, other)
    a, b = (r.get("envelope") or {}).get("status"), (r.get("other") or {}).get("status")
    return a == "success" and b == "success", f"writer A (octave_write, base_hash of the original) and writer B (same base_hash, run right before A's os.replace): A={a}, B={b}; final file holds {'A' if (r['after'].get(scn['target']) or (0, 0, b''))[2] != C17_b.OTHER_TEXT.encode() else 'B'}'s content"


def ob_lemma(ctx: Ctx) -> Outcome:
    n, bad = two_writer_schedules()
    if not bad:
        return Outcome.ok("explicit interleaving", count=n)
    failed, text = replay_two_writers()
    shortest = min(bad, key=lambda s: s.index("B"))
    return Outcome.refuted("explicit interleaving", [Witness(what=f"{len(bad)} of {n} interleavings of two writers' steps {STEPS} let both succeed, e.g. schedule {bad[0]} (both re-read before either replaces); replay: {text}", input=bad[0], key="both-succeed|between-final-reread-and-replace", replay={"runner": "props.C17:replay_two_writers", "args": {}}, confirmed=failed, verifier_output=f"counter-schedules: {bad[:5]} ...; {shortest}")], count=n, discharged=n - len(bad))


def ob_failed_noop(ctx: Ctx) -> Outcome:
    failed, text = FP.probe_failed_calls_noop(cores=1)
    extra = dict(bound=f"scenarios {list(FP.NOOP_SCENARIOS)} x every file-system call boundary x 5 errnos + kill before/after; oracle: status=error => tree snapshot unchanged, no temp file", evaluations=int(text.split(" ")[0]) if text.split(" ")[0].isdigit() else 1, distinct_nontrivial=len(FP.NOOP_SCENARIOS), rule="a case is one fault / kill point of one scenario")
    if failed:
        return Outcome.refuted("real write paths under fault injection", [Witness(what=text, key="failed-call-changed-the-tree", input=text[:80], replay={"runner": "props.fsproto:probe_failed_calls_noop", "args": {}}, confirmed=True)], **extra)
    return Outcome.ok("real write paths under fault injection", **extra)


def obligations(ctx: Ctx):
    P = PROPERTY
    obs = [
        Ob(f"{P}.F1", "F", "corrections_only and every error returned before the write block cannot touch the file system (no mutation before the dry-run return, none in callees)", FUNCS[:1], FP.ob_mutations_after_dry_return),
        Ob(f"{P}.F2", "F", "every mode compares hash(text read) with base_hash first and returns the hash error", FUNCS, FP.ob_cas_guards),
        Ob(f"{P}.F3", "F", "WriteTool.execute has no await point", FUNCS[:1], FP.ob_no_await),
        Ob(f"{P}.F4", "F", "write block of execute: re-read + compare right before os.replace; failing branch unlinks the temp file", FUNCS[:1], FP.ob_protocol(FP.WRITE, "WriteTool.execute", "target_path", "canonical_content", "wt_overwrite_hashok")),
        Ob(f"{P}.F5", "F", "write block of atomic_write_octave: the same", FUNCS[1:], FP.ob_protocol(FP.FOPS, "atomic_write_octave", "target_path", "content", "at_overwrite_hashok")),
        Ob(f"{P}.F6", "F", "the cleanup after a failed write removes only the directories this call created (rmdir of the listed ones; no upward or recursive removal)", [FP.FOPS + ":remove_created_dirs", FP.FOPS + ":missing_parent_dirs"], FP.ob_cleanup_frame),
        Ob(f"{P}.L1", "L", "of two writers holding the same base_hash at most one succeeds (all interleavings of the six protocol steps)", FUNCS, ob_lemma),
    ]
    try:
        from props import C17_b

        obs.append(Ob(f"{P}.B1", "B", "histories of writes / dry calls / external modifications against a register model", FUNCS, C17_b.ob_histories, timeout=6000))
        obs.append(Ob(f"{P}.B3", "B", "every fault / kill point of the missing-parent, read-only and hash-mismatch scenarios: a call that returns an error leaves the whole tree (pre-existing empty directories included) as it was", FUNCS, ob_failed_noop, timeout=3000))
        obs.append(Ob(f"{P}.B2", "B", "a second actor (external write, delete, second octave_write with the same base_hash) at every call boundary of the writer", FUNCS, C17_b.ob_second_actor, timeout=6000))
    except ImportError:
        pass
    return obs
