"""Lexical kernel obligations shared by C01, C03, C04 (DESIGN §6, 'lexical kernel').

Contract on the pair (emitter.needs_quotes / emit_value string branch , lexer.tokenize one step):
  every text the emitter writes for a scalar re-lexes, in every emission context, to exactly the
  token(s) that carry the scalar back — for ALL strings, not a sample.
Everything here is generated from the working tree: the four needs_quotes regexes and its reserved
word list (declist over the real AST), the escape chain of emit_value, the unescape chain of the
lexer's STRING branch, TOKEN_PATTERNS, the real identifier predicates.
"""
from __future__ import annotations

import ast
import itertools
from functools import lru_cache

from verif import extract
from verif.common import Ctx, Outcome, Witness, Ob
from verif.extract import ExtractionError
from verif.reglang import automata as A
from verif.reglang import declist, tokmodel
from verif.reglang import transducer as TR
from verif.reglang.alphabet import MARK, alphabet

EMITTER = "octave_mcp.core.emitter"
LEXER = "octave_mcp.core.lexer"
PARSER = "octave_mcp.core.parser"

PREV_CTX = [":", ",", "[", " "]  # character before a value in canonical text: '::' ',' '[' indent
FOLLOW = "\n,] "  # character after a value: newline, comma, bracket, ' // comment'

FUNCS_EMIT = ["octave_mcp.core.emitter:needs_quotes", "octave_mcp.core.emitter:emit_value"]
FUNCS_LEX = ["octave_mcp.core.lexer:tokenize", "octave_mcp.core.lexer:_match_unicode_identifier"]


def replay_scalar(value, positions=("assign", "meta", "list", "map", "block")):
    from verif.bounded.roundtrip import roundtrip

    for p in positions:
        failed, text = roundtrip(value, p)
        if failed:
            return True, text
    return False, f"{value!r} round-trips in all positions"


def _witness_for_value(v: str, what: str, verifier: str = "") -> Witness:
    failed, text = replay_scalar(v)
    return Witness(
        what=f"{what}; replay: {text}",
        input=v,
        key=v,
        replay={"runner": "props.lexical:replay_scalar", "args": {"value": v}},
        confirmed=failed,
        verifier_output=verifier,
    )


def prefix_before_mark(d: A.DFA) -> A.DFA:
    """{ v : exists w. v#w in d } for a language with exactly one MARK per word."""
    n = d.al.n
    # states from which acceptance is reachable by MARK-free words
    rev: dict[int, set[int]] = {}
    for s, row in enumerate(d.trans):
        for c in range(n):
            rev.setdefault(row[c], set()).add(s)
    live = set(d.accept)
    stack = list(live)
    while stack:
        s = stack.pop()
        for p in rev.get(s, ()):
            if p not in live:
                live.add(p)
                stack.append(p)
    dead = len(d.trans)
    trans = [row[:n] + [dead] for row in d.trans] + [[dead] * (n + 1)]
    acc = {s for s, row in enumerate(d.trans) if row[n] in live}
    return A.DFA(d.al, trans, d.start, acc).minimize()


@lru_cache(maxsize=None)
def quote_language():
    """(Q, clauses): Q = strings for which needs_quotes returns True (from the real AST)."""
    return declist.decision_language(EMITTER, "needs_quotes")


@lru_cache(maxsize=None)
def bare_classes() -> dict[str, A.DFA]:
    al = alphabet()
    q, _ = quote_language()
    bare = A.nomark(al) - q
    c = extract.module_consts(EMITTER)

    def full(name: str) -> A.DFA:
        rx = c.get(name)
        if not isinstance(rx, extract.Rx):
            raise ExtractionError(f"emitter.{name} is not an extractable regex")
        return A.erase_mark(A.match_marked(rx.pattern, rx.flags, None, al)) & _fullmatch_only(rx, al)

    var = bare & full("VARIABLE_PATTERN")
    ann = (bare & full("ANNOTATION_PATTERN")) - var
    expr = (bare & full("EXPRESSION_PATTERN")) - var - ann
    ident = bare - var - ann - expr
    return {"bare": bare, "var": var, "ann": ann, "expr": expr, "ident": ident}


def _fullmatch_only(rx: extract.Rx, al) -> A.DFA:
    # the four patterns are anchored ^...\Z, so `.match` accepts exactly the full matches
    return A.dfa_regex(rx.pattern, rx.flags, None, al)


def _follow_tail(al) -> A.NFA:
    """(one FOLLOW character then anything) — canonical text always continues after a value."""
    return A.nfa_concat(al, [A.nfa_set(al, al.chars(FOLLOW)), A.sigma_star(al)])


def _known_dfa(ctx: Ctx, oid: str) -> A.DFA:
    al = alphabet()
    k = A.nomark(al) - A.nomark(al)
    for pat in ctx.known_lang_patterns(oid):
        k = k | A.dfa_regex(pat, 0, None, al)
    return k


_PROBES = ["true", "false", "null", "vs"] + [c for c in "!\"#$%&'()*+,-./:;<=>?@[\\]^_`{|}~ "] + ["0", "→", "⊕", "⇌", "∧", "∨", "§", "⧺", "//", "===", "---"]


def _report_bad_values(ctx: Ctx, oid: str, bad_v: A.DFA, what: str, n_checked: int, backend: str = "dfa") -> Outcome:
    """bad_v: language of values violating the obligation. Splits into known / new."""
    al = alphabet()
    if bad_v.is_empty():
        return Outcome.ok(backend, count=n_checked)
    wits: list[Witness] = []
    known = _known_dfa(ctx, oid)
    new = bad_v - known
    if not new.is_empty():
        # candidate members of the counterexample language: the shortest ones, plus the shortest member
        # of its intersection with each probe sublanguage (reserved words, every ASCII punctuation
        # character, digits, operators) - the verifier's language is exact, but the obligation is a
        # sufficient condition, so members are replayed on the real emit+parse and the ones that
        # really fail are reported first.
        cands: list[str] = []
        cur = new
        for _ in range(3):
            w = cur.witness()
            if w is None:
                break
            s = al.decode(w)
            cands.append(s)
            cur = cur - A.concat(al, [s])
        for probe in _PROBES:
            part = new & A.concat(al, [A.sigma_star(al), probe, A.sigma_star(al)])
            w = part.witness()
            if w is not None:
                s = al.decode(w)
                if s not in cands:
                    cands.append(s)
        made = [_witness_for_value(s, what, verifier=f"counterexample language has {new.size()} DFA states; member {s!r}") for s in cands]
        confirmed = [w for w in made if w.confirmed]
        wits.extend(confirmed[:3] if confirmed else made[:3])
    for f in ctx.known_for(oid):
        if f.match.get("kind") != "lang":
            continue
        part = bad_v & A.dfa_regex(f.match["pattern"], 0, None, al)
        w = part.witness()
        if w is not None:
            s = al.decode(w)
            wits.append(_witness_for_value(s, what))
    return Outcome.refuted(backend, wits, detail=what, count=n_checked, discharged=max(0, n_checked - 1))


# ------------------------------------------------------------------------------------------------


LEXER_PROBE_TEXTS = [
    "K::1\n", 'K::"a b"\n', "K::1\r\nJ::2\r\n", "K::1\rJ::2\r", 'K::"a\rb"\n', 'K::"a\r\nb"\n', "===D===\r\nK::v\r\n===END===\r\n", "K::[a,b]\n  L::x->y\n", "  K::v\n\n  J::w\n", "K::a  b\n", " K::V\n", "K::1 \n", "K::\u00e9\n", "k::TRUE\n", "K:: v\n", "K::v // c\n",
]


def probe_lexer_differential() -> tuple[bool, str]:
    """concrete stand-in when tokenize's skeleton is not the one the step model assumes: the model's prediction
    (token types and start offsets, or a lexical error) against the real lexer on texts that a pre- or post-processing
    step would change (CR / CRLF line endings, CR inside quotes, trailing / doubled spaces, case, accents); and the
    value of a quoted string keeps every character between the quotes"""
    from octave_mcp.core.lexer import LexerError, tokenize

    bad = []
    for t in LEXER_PROBE_TEXTS:
        for lenient in (False, True):
            m, r = tokmodel.model_tokenize(t, lenient), tokmodel.real_tokenize(t, lenient)
            m2 = m if isinstance(m, str) else [x for x in m]
            r2 = r if isinstance(r, str) else [x for x in r]
            if (isinstance(m2, str)) != (isinstance(r2, str)) or (not isinstance(m2, str) and m2 != r2):
                bad.append(f"tokenize({t!r}, lenient={lenient}): model {str(m2)[:120]} real {str(r2)[:120]}")
    for body in ("a\rb", "a\r\nb", "a  b ", "É", "a\u00a0b"):
        try:
            toks, _ = tokenize(f'K::"{body}"\n')
            vals = [x.value for x in toks if x.type.name == "STRING"]
        except LexerError as e:
            vals = [f"LexerError {e}"]
        if vals != [body]:
            bad.append(f'the value of the quoted string "{body!r}" is read as {vals!r}')
    return bool(bad), "; ".join(bad[:3]) or f"{len(LEXER_PROBE_TEXTS)} texts x 2 modes: the real lexer agrees with the step model; quoted bodies are read verbatim"


def ob_skeleton(ctx: Ctx) -> Outcome:
    try:
        facts = tokmodel.skeleton_check()
        pats = tokmodel.token_patterns()
    except ExtractionError as e:
        from verif.common import shape_verdict

        return shape_verdict("ast-shape", [str(e)], probe_lexer_differential, count=1, replay={"runner": "props.lexical:probe_lexer_differential", "args": {}})
    return Outcome.ok("ast-shape", count=len(facts), facts=facts, table_entries=len(pats))


def ob_needs_quotes_shape(ctx: Ctx) -> Outcome:
    """C04.P2 as an R obligation: needs_quotes is a decision list whose clauses are regular; its
    True-language is computed from the AST. Also pins the emit_value string branch."""
    try:
        q, clauses = quote_language()
        chain, _ = emit_escape_chain()
    except ExtractionError as e:
        return Outcome.undecided("declist", str(e))
    al = alphabet()
    # sanity / reachability: both outcomes occur
    if q.is_empty() or (A.nomark(al) - q).is_empty():
        return Outcome.refuted("declist", [Witness(what="needs_quotes is constant", verifier_output=str(clauses))], count=2)
    # contract clauses the property relies on: "", control characters and the reserved words are quoted
    must_quote = A.concat(al, []) | A.concat(al, [A.sigma_star(al), al.chars("\n\t\r"), A.sigma_star(al)])
    for wd in ("true", "false", "null"):
        must_quote = must_quote | A.concat(al, [wd])
    bad = must_quote - q
    if not bad.is_empty():
        s = bad.witness_str()
        return Outcome.refuted("dfa", [_witness_for_value(s, f"needs_quotes({s!r}) is False but the text is a literal / contains a control character")], count=3)
    return Outcome.ok("declist+dfa", count=3, clauses=clauses, escape_chain=chain)


def probe_holographic_strings() -> tuple[bool, str]:
    """concrete stand-in for ob_holographic_chain: holographic patterns whose strings need every escape are canonical fixed points"""
    from octave_mcp.core.emitter import emit
    from octave_mcp.core.parser import parse

    bad = []
    for body in ("a\\\\n", "a\\\\t", 'a\\"b', "a\\nb", "a\\tb", "tail\\\\", "plain", "é"):
        for shape in ('K::["{b}"∧REQ]', 'K::["{b}"∧REQ→§SELF]', 'K::["x"∧CONST["{b}"]]'):
            t = "===D===\n" + shape.replace("{b}", body) + "\n===END===\n"
            try:
                e1 = emit(parse(t))
            except Exception:  # noqa: BLE001
                continue
            try:
                e2 = emit(parse(e1))
            except Exception as e:  # noqa: BLE001
                bad.append(f"{t!r} is written as {e1!r}, which is refused: {type(e).__name__}")
                continue
            if e1 != e2:
                bad.append(f"{t!r} is written as {e1!r}, then as {e2!r}")
    return bool(bad), "; ".join(bad[:3]) or "holographic patterns with escaped strings are fixed points"


def ob_holographic_chain(ctx: Ctx) -> Outcome:
    """The text a holographic value is written with (HolographicValue.raw_pattern, emitted verbatim) is built by
    Parser._reconstruct_pattern_from_tokens(token_slice, escape_strings=True): its STRING branch must apply the
    EMITTER's escape chain (read from both sources and compared) before quoting, so that the R obligation
    unescape∘escape = id carries over to strings inside patterns; and _try_parse_holographic must store that call's
    result as raw_pattern. Shape not recognised => the concrete probe decides."""
    from verif.common import shape_verdict

    problems = []
    try:
        chain, _ = emit_escape_chain()
        fn = extract.find_def(PARSER, "Parser._reconstruct_pattern_from_tokens")
        caller = extract.find_def(PARSER, "Parser._try_parse_holographic")
    except ExtractionError as e:
        return shape_verdict("ast-shape", [str(e)], probe_holographic_strings, count=1, replay={"runner": "props.lexical:probe_holographic_strings", "args": {}})
    found = None
    for n in ast.walk(fn):
        if isinstance(n, ast.If) and ast.unparse(n.test) == "token.type == TokenType.STRING":
            body = n.body
            src = [ast.unparse(b) for b in body]
            if len(body) == 3 and src[0] == "text = token.value" and isinstance(body[1], ast.If) and ast.unparse(body[1].test) == "escape_strings" and len(body[1].body) == 1 and not body[1].orelse and isinstance(body[1].body[0], ast.Assign) and ast.unparse(body[1].body[0].targets[0]) == "text" and src[2] == "parts.append(f'\"{text}\"')":
                try:
                    found = declist.replace_chain(body[1].body[0].value, "text")
                except ExtractionError as e:
                    problems.append(f"_reconstruct_pattern_from_tokens: {e}")
            break
    if found is None and not problems:
        problems.append("_reconstruct_pattern_from_tokens: STRING branch is not `text = token.value; if escape_strings: text = text.replace(...)...; parts.append(f'\"{text}\"')`")
    elif found is not None and found != chain:
        problems.append(f"_reconstruct_pattern_from_tokens escapes with {found}, the emitter with {chain}")
    kws = [ast.unparse(k.value) for c in ast.walk(caller) if isinstance(c, ast.Call) and ast.unparse(c.func) == "HolographicValue" for k in c.keywords if k.arg == "raw_pattern"]
    if kws != ["self._reconstruct_pattern_from_tokens(token_slice, escape_strings=True)"]:
        problems.append(f"_try_parse_holographic stores raw_pattern = {kws}, expected the escaped reconstruction of the same token slice")
    if problems:
        return shape_verdict("ast-shape", problems, probe_holographic_strings, count=2, replay={"runner": "props.lexical:probe_holographic_strings", "args": {}})
    return Outcome.ok("ast-shape", count=2, chain=chain)


@lru_cache(maxsize=None)
def emit_escape_chain() -> tuple[list[tuple[str, str]], list[str]]:
    """Escape chain of emit_value's str branch, and of the two force-quote sites; all three must
    be the same chain (else the contract 'one escape function' does not match the source)."""
    fn = extract.find_def(EMITTER, "emit_value")
    chains = []
    sites = []
    for mod_fn, base in (("emit_value", "value"), ("_force_quote_inline_map_value", "raw_value"), ("emit_assignment", "assignment.value")):
        f = extract.find_def(EMITTER, mod_fn)
        found = None
        for n in ast.walk(f):
            if isinstance(n, ast.Assign) and len(n.targets) == 1 and isinstance(n.targets[0], ast.Name) and n.targets[0].id == "escaped":
                found = declist.replace_chain(n.value, base)
                # the quoted form must be f'"{escaped}"'
        if found is None:
            # a site may delegate to another site instead of repeating the chain
            if mod_fn != "emit_value" and any(isinstance(c, ast.Call) and ast.unparse(c.func) in ("_force_quote_inline_map_value", "emit_value") for c in ast.walk(f)):
                sites.append(mod_fn + " (delegates)")
                continue
            raise ExtractionError(f"{mod_fn}: no `escaped = <value>.replace(...)` statement")
        src = ast.unparse(f)
        if "f'\"{escaped}\"'" not in src:
            raise ExtractionError(f"{mod_fn}: quoted form is not f'\"{{escaped}}\"'")
        chains.append(found)
        sites.append(mod_fn)
    if not all(c == chains[0] for c in chains):
        raise ExtractionError(f"escape chains differ between {sites}: {chains}")
    # emit_value: `if needs_quotes(value): escaped=...; return f'"{escaped}"'` then `return value`
    ok = False
    for n in ast.walk(fn):
        if isinstance(n, ast.If) and ast.unparse(n.test) == "isinstance(value, str)":
            inner = n.body
            if (
                len(inner) == 2
                and isinstance(inner[0], ast.If)
                and ast.unparse(inner[0].test) == "needs_quotes(value)"
                and not inner[0].orelse
                and isinstance(inner[0].body[-1], ast.Return)
                and isinstance(inner[1], ast.Return)
                and ast.unparse(inner[1].value) == "value"
            ):
                ok = True
            # the same decision with the bare case first: `if not needs_quotes(value): return value; escaped = ...; return f'"{escaped}"'`
            if (
                len(inner) == 3
                and isinstance(inner[0], ast.If)
                and ast.unparse(inner[0].test) == "not needs_quotes(value)"
                and not inner[0].orelse
                and [ast.unparse(x) for x in inner[0].body] == ["return value"]
                and isinstance(inner[1], ast.Assign)
                and ast.unparse(inner[1].targets[0]) == "escaped"
                and isinstance(inner[2], ast.Return)
                and ast.unparse(inner[2].value) == "f'\"{escaped}\"'"
            ):
                ok = True
    if not ok:
        raise ExtractionError("emit_value: str branch is not `if needs_quotes(value): <quote>; return value`")
    return chains[0], sites


def _callback_table(name: str) -> dict:
    """table of a `re.sub(r"\\\\(.)", callback, ...)` callback, by exhaustive evaluation of the real function: for every
    code point c (except newline, which `.` does not match) callback(m) with m.group(1) == c, m.group(0) == '\\\\' + c;
    entries where the result differs from group(0). The callback may only use group(0) / group(1) (else ExtractionError)."""
    import importlib

    fn = getattr(importlib.import_module(LEXER), name)

    class _M:
        __slots__ = ("c",)

        def __init__(self, c):
            self.c = c

        def group(self, k=0):
            if k == 0:
                return "\\" + self.c
            if k == 1:
                return self.c
            raise ExtractionError("unescape callback reads a group other than 0 / 1")

        def __getattr__(self, a):
            raise ExtractionError(f"unescape callback uses match.{a}")

    table = {}
    for cp in itertools.chain(range(0, 0xD800), range(0xE000, 0x110000)):
        c = chr(cp)
        if c == "\n":
            continue
        out = fn(_M(c))
        if not isinstance(out, str):
            raise ExtractionError("unescape callback returns a non-string")
        if out != "\\" + c:
            table[c] = out
    return table


@lru_cache(maxsize=None)
def lexer_unescape():
    """Unescape step of the lexer's STRING branch, read from the AST. Two shapes are in reach:
    ('chain', [(a,b),...])  a sequence of `value = value.replace(a, b)`;
    ('table', {c: text})    one pass `value = RX.sub(FN, value)` with RX = r"\\(.)" (flags 0) and
                            FN returning TABLE.get(match.group(1), match.group(0))."""
    fn = extract.find_def(LEXER, "tokenize")
    consts = extract.module_consts(LEXER)
    for n in ast.walk(fn):
        if isinstance(n, ast.If) and ast.unparse(n.test) == "token_type == TokenType.STRING":
            stmts = n.body
            if not (isinstance(stmts[0], ast.If) and "matched_text.startswith" in ast.unparse(stmts[0].test)):
                raise ExtractionError("STRING branch: quote stripping not found")
            strip_src = ast.unparse(stmts[0])
            if "value = matched_text[1:-1]" not in strip_src or "value = matched_text[3:-3]" not in strip_src:
                raise ExtractionError("STRING branch: value is not matched_text[1:-1] / [3:-3]")
            rest = stmts[1:]
            if len(rest) == 1 and isinstance(rest[0], ast.Assign) and ast.unparse(rest[0].targets[0]) == "value":
                v = rest[0].value
                if (
                    isinstance(v, ast.Call)
                    and isinstance(v.func, ast.Attribute)
                    and v.func.attr == "sub"
                    and isinstance(v.func.value, ast.Name)
                    and len(v.args) == 2
                    and isinstance(v.args[0], ast.Name)
                    and ast.unparse(v.args[1]) == "value"
                ):
                    rx = consts.get(v.func.value.id)
                    if not (isinstance(rx, extract.Rx) and rx.pattern == r"\\(.)" and rx.flags == 0):
                        raise ExtractionError("STRING branch: substitution pattern is not r'\\\\(.)'")
                    f = extract.find_def(LEXER, v.args[0].id)
                    body = [b for b in f.body if not (isinstance(b, ast.Expr) and isinstance(b.value, ast.Constant))]
                    table = None
                    if len(body) == 1 and isinstance(body[0], ast.Return):
                        r = body[0].value
                        arg = f.args.args[0].arg
                        if (
                            isinstance(r, ast.Call)
                            and isinstance(r.func, ast.Attribute)
                            and r.func.attr == "get"
                            and isinstance(r.func.value, ast.Name)
                            and len(r.args) == 2
                            and ast.unparse(r.args[0]) == f"{arg}.group(1)"
                            and ast.unparse(r.args[1]) == f"{arg}.group(0)"
                        ):
                            table = consts.get(r.func.value.id)
                    if table is None:
                        # any other spelling of the callback: it is a function of ONE character (the pattern is \\(.)),
                        # so its table is obtained exactly by calling the real callback on every code point
                        table = _callback_table(v.args[0].id)
                    if not (isinstance(table, dict) and all(isinstance(k, str) and len(k) == 1 and isinstance(x, str) for k, x in table.items())):
                        raise ExtractionError("unescape table is not a {char: text} mapping")
                    return ("table", dict(table))
            chain = []
            for st in rest:
                if isinstance(st, ast.Assign) and ast.unparse(st.targets[0]) == "value":
                    chain.extend(declist.replace_chain(st.value, "value"))
                else:
                    raise ExtractionError(f"STRING branch: unexpected statement {ast.unparse(st)[:60]}")
            return ("chain", chain)
    raise ExtractionError("tokenize: STRING branch not found")


def unescape_transducer(al):
    kind, data = lexer_unescape()
    if kind == "chain":
        def ref(s: str) -> str:
            for a, b in data:
                s = s.replace(a, b)
            return s

        return TR.chain_t(al, data), ref, data
    bs = al.cls("\\")
    nl = al.cls("\n")
    table = {al.cls(k): al.encode(v) for k, v in data.items()}

    def step(s, c):
        if s == 0:
            return (1, ()) if c == bs else (0, (c,))
        if c == nl:  # '.' does not match a newline: the backslash stays, the newline is copied
            return (0, (bs, nl))
        return (0, table[c]) if c in table else (0, (bs, c))

    mentioned = {bs, nl} | set(table) | {x for v in table.values() for x in v}
    t = TR.SeqT(0, step, lambda s: (bs,) if s == 1 else (), mentioned)
    import re as _re

    rx = _re.compile(r"\\(.)")

    def ref(s: str) -> str:
        return rx.sub(lambda m: data.get(m.group(1), m.group(0)), s)

    return t, ref, data


def ob_var(ctx: Ctx, oid: str) -> Outcome:
    """Bare VARIABLE-class strings re-lex to exactly one VARIABLE token with the same text."""
    al = alphabet()
    try:
        cls = bare_classes()["var"]
    except ExtractionError as e:
        return Outcome.undecided("declist", str(e))
    bad_total = A.nomark(al) - A.nomark(al)
    n = 0
    for pc in PREV_CTX:
        sm = tokmodel.step_model(pc)
        x = A.concat(al, [cls, A.nfa_mark(al), _follow_tail(al)])
        bad = x - sm.fire_by_type("VARIABLE")
        bad_total = bad_total | prefix_before_mark(bad)
        n += 1
    return _report_bad_values(ctx, oid, bad_total, "a string emitted bare as a $variable does not re-lex to one VARIABLE token carrying it", n)


def _id_expected(prev_char: str) -> A.DFA:
    """{ v#w : at v·w no table entry matches, no '+'/'===' special case, and the scanner consumes exactly v }."""
    al = alphabet()
    sm = tokmodel.step_model(prev_char)
    scan = tokmodel.scanner_marked(lenient=False)
    notable = tokmodel.ignore_mark(sm.no_table)
    not_plus = tokmodel.ignore_mark(A.nomark(al) - A.concat(al, ["+", A.sigma_star(al)]) - A.concat(al, ["===", A.sigma_star(al)]))
    return scan & notable & not_plus


def ob_ident(ctx: Ctx, oid: str, which: str = "ident") -> Outcome:
    """Bare identifier-class (or annotation-class) strings re-lex to exactly one IDENTIFIER token."""
    al = alphabet()
    try:
        cls = bare_classes()[which]
    except ExtractionError as e:
        return Outcome.undecided("declist", str(e))
    bad_total = A.nomark(al) - A.nomark(al)
    n = 0
    for pc in PREV_CTX:
        x = A.concat(al, [cls, A.nfa_mark(al), _follow_tail(al)])
        bad = x - _id_expected(pc)
        bad_total = bad_total | prefix_before_mark(bad)
        n += 1
    what = {
        "ident": "a string emitted bare (identifier class of needs_quotes) does not re-lex to one IDENTIFIER token carrying it",
        "ann": "a string emitted bare as NAME<qualifier> does not re-lex to one IDENTIFIER token carrying it",
    }[which]
    return _report_bad_values(ctx, oid, bad_total, what, n)


def ob_expr(ctx: Ctx, oid: str) -> Outcome:
    """Bare operator-expression strings: every identifier segment re-lexes (after ':' ',' '[' ' ' or an
    operator, before an operator or a FOLLOW character) to one IDENTIFIER token, every operator
    character to one operator token of width 1. Token sequence = ID (OP ID)+ follows by induction on
    the number of segments (the step obligations quantify over every admissible previous character)."""
    al = alphabet()
    try:
        cls = bare_classes()["expr"]
    except ExtractionError as e:
        return Outcome.undecided("declist", str(e))
    ops_text = extract.const(EMITTER, "_UNICODE_OPS")
    ops = al.chars(ops_text)
    c = extract.module_consts(EMITTER)
    seg = A.dfa_regex(c["IDENTIFIER_PATTERN"].pattern, 0, None, al)  # segment language = identifier pattern
    # sanity: EXPRESSION = seg (op seg)+  (so the segment decomposition below is the pattern's own)
    rebuilt = A.concat(al, [seg, ops, seg, A.nfa_star(al, A.nfa_concat(al, [A.nfa_set(al, ops), seg.to_nfa()]))])
    expr_full = A.dfa_regex(c["EXPRESSION_PATTERN"].pattern, c["EXPRESSION_PATTERN"].flags, None, al)
    if not ((rebuilt - expr_full).is_empty() and (expr_full - rebuilt).is_empty()):
        # the pattern was rewritten. The segment lemma still covers every value emitted bare through the expression
        # branch as long as that class stays inside IDENT (OP IDENT)+ ; members outside it are not covered by the lemma,
        # so they are replayed on the real emit + re-read: a failing member is a violation, none failing is undecided.
        extra = cls - rebuilt
        if not extra.is_empty():
            cands: list[str] = []
            cur = extra
            for _ in range(4):
                w = cur.witness()
                if w is None:
                    break
                cands.append(al.decode(w))
                cur = cur - A.concat(al, [cands[-1]])
            for probe in _PROBES:
                w = (extra & A.concat(al, [A.sigma_star(al), probe, A.sigma_star(al)])).witness()
                if w is not None and al.decode(w) not in cands:
                    cands.append(al.decode(w))
            made = [_witness_for_value(v, "a string emitted bare as an operator expression is not of the shape IDENT (OP IDENT)+ whose segments are proved to re-lex", verifier=f"L(bare expression class) - IDENT (OP IDENT)+ has {extra.size()} DFA states; member {v!r}") for v in cands]
            confirmed = [w for w in made if w.confirmed]
            if confirmed:
                return Outcome.refuted("dfa", confirmed[:3], count=2)
            return Outcome.undecided("dfa", f"EXPRESSION_PATTERN admits strings outside IDENT (OP IDENT)+ over _UNICODE_OPS (e.g. {cands[:3]}); the segment lemma does not cover them and none of the replayed members fails")
    n = 0
    bad_seg = A.nomark(al) - A.nomark(al)
    prevs = PREV_CTX + [chr(al.rep[o]) for o in sorted(ops)]
    tail = A.nfa_concat(al, [A.nfa_set(al, al.chars(FOLLOW) | ops), A.sigma_star(al)])
    for pc in prevs:
        x = A.concat(al, [seg, A.nfa_mark(al), tail])
        bad = x - _id_expected(pc)
        bad_seg = bad_seg | prefix_before_mark(bad)
        n += 1
    # operator step: after an identifier character, before an identifier start
    S, B = tokmodel.id_sets()
    bad_op = []
    for o in sorted(ops):
        och = chr(al.rep[o])
        for pc in ("a", "1", "_", ".", "-"):
            sm = tokmodel.step_model(pc)
            fire_any = A.nomark(al) - A.nomark(al)
            for name, f in zip(sm.names, sm.Fire):
                if name in ("FLOW", "SYNTHESIS", "CONCAT", "TENSION", "CONSTRAINT", "ALTERNATIVE", "AT"):
                    fire_any = fire_any | f
            x = A.concat(al, [och, A.nfa_mark(al), A.nfa_set(al, frozenset(c0 for c0 in S if c0 < 128)), A.sigma_star(al)])
            if not (x - fire_any).is_empty():
                bad_op.append(och)
            n += 1
    # values of the expression class having at least one failing segment
    anyseg = A.nfa_star(al, A.nfa_concat(al, [seg.to_nfa(), A.nfa_set(al, ops)]))
    anyseg2 = A.nfa_star(al, A.nfa_concat(al, [A.nfa_set(al, ops), seg.to_nfa()]))
    bad_v = cls & A.concat(al, [anyseg, bad_seg, anyseg2])
    if bad_op:
        w = [Witness(what=f"operator character {o!r} inside a bare expression does not re-lex to a one-character operator token", input=f"A{o}B", key=f"A{o}B") for o in bad_op]
        return Outcome.refuted("dfa", w, count=n)
    return _report_bad_values(ctx, oid, bad_v, "a string emitted bare as an operator expression has a segment that does not re-lex to one IDENTIFIER token", n)


def ob_literals(ctx: Ctx, oid: str) -> Outcome:
    """Numbers, booleans, null: emitted text re-lexes to one token of the right type (A-float-repr:
    the output language of str(int) / repr(finite float) is assumed, cross-checked in B)."""
    al = alphabet()
    digits = "[0-9]"
    int_lang = A.dfa_regex(rf"-?(?:0|[1-9]{digits}*)", 0, None, al)
    float_lang = A.dfa_regex(rf"-?{digits}+\.{digits}+|-?{digits}(?:\.{digits}+)?e[+-]{digits}{digits}+", 0, None, al)
    n = 0
    wits = []
    for pc in PREV_CTX:
        sm = tokmodel.step_model(pc)
        for name, lang, tok in (("int", int_lang, "NUMBER"), ("float", float_lang, "NUMBER")):
            x = A.concat(al, [lang, A.nfa_mark(al), _follow_tail(al)])
            bad = prefix_before_mark(x - sm.fire_by_type(tok))
            n += 1
            if not bad.is_empty():
                s = bad.witness_str()
                wits.append(Witness(what=f"{name} text {s!r} after {pc!r} does not re-lex to one NUMBER token", input=s, key=s))
        for word, tok in (("true", "BOOLEAN"), ("false", "BOOLEAN"), ("null", "NULL")):
            x = A.concat(al, [word, A.nfa_mark(al), _follow_tail(al)])
            n += 1
            if not (x - sm.fire_by_type(tok)).is_empty():
                wits.append(Witness(what=f"literal {word} after {pc!r} does not re-lex to one {tok} token", input=word, key=word))
    # int-vs-float typing in the lexer: '.' or 'e' present iff float (read from the NUMBER branch)
    fn = extract.find_def(LEXER, "tokenize")
    src = ast.unparse(fn)
    if "if '.' in matched_text or 'e' in matched_text.lower():\n" not in src or "value = float(matched_text)" not in src or "value = int(matched_text)" not in src:
        return Outcome.undecided("ast-shape", "NUMBER branch of tokenize no longer has the int/float split the contract is keyed to")
    # every int text has neither '.' nor 'e/E'; every float text has one
    dot_e = A.concat(al, [A.sigma_star(al), al.chars(".eE"), A.sigma_star(al)])
    n += 2
    if not (int_lang & dot_e).is_empty() or not (float_lang - dot_e).is_empty():
        wits.append(Witness(what="int/float text classes are not separated by the lexer's '.'/'e' test"))
    if wits:
        return Outcome.refuted("dfa", wits, count=n)
    return Outcome.ok("dfa", count=n)


def _string_pattern_index() -> int:
    pats = tokmodel.token_patterns()
    idx = [i for i, (p, n) in enumerate(pats) if n == "STRING" and not p.startswith('"""')]
    if len(idx) != 1:
        raise ExtractionError("cannot identify the single-quoted STRING entry of TOKEN_PATTERNS")
    return idx[0]


def ob_quoted_shape(ctx: Ctx, oid: str) -> Outcome:
    """'"' + escape(v) + '"' re-lexes, for every v, to exactly one single-quoted STRING token."""
    al = alphabet()
    try:
        chain, _ = emit_escape_chain()
        si = _string_pattern_index()
    except ExtractionError as e:
        return Outcome.undecided("ast-shape", str(e))
    hom = TR.homomorphism_of_chain(al, chain)
    if hom is None:
        return Outcome.undecided("transducer", "escape chain is not a character homomorphism")
    img = TR.image_nfa(al, hom)
    n = 0
    bad_total = None
    for pc in PREV_CTX:
        sm = tokmodel.step_model(pc)
        x = A.concat(al, ['"', img, '"', A.nfa_mark(al), _follow_tail(al)])
        bad = x - sm.Fire[si]
        n += 1
        if not bad.is_empty():
            w = bad.witness()
            text = al.decode(tuple(c for c in w if c != MARK))
            # find a preimage v by brute force over short strings on the mentioned symbols
            return Outcome.refuted(
                "dfa+transducer",
                [Witness(what=f"emitted quoted text {text!r} (after {pc!r}) is not consumed as one single-quoted STRING token", input=text, key=text)],
                count=n,
            )
    return Outcome.ok("dfa+transducer", count=n, escape=chain)


def ob_escape_inverse(ctx: Ctx, oid: str) -> Outcome:
    """unescape(escape(v)) == v for every string v (transducer identity)."""
    import itertools
    import re as _re

    al = alphabet()
    try:
        chain, sites = emit_escape_chain()
        un_t, un_ref, un_data = unescape_transducer(al)
    except ExtractionError as e:
        return Outcome.undecided("ast-shape", str(e))
    esc_t = TR.chain_t(al, chain)
    t = TR.compose([esc_t, un_t])
    # encoder cross-check: both transducers against the real string operations on all short strings
    chars = sorted({ch for a, b in chain for ch in a + b} | {"a", "n", "t", "\\", '"', "\n", "\t"})
    for L in range(0, 5):
        for tup in itertools.product(chars, repeat=L):
            s = "".join(tup)
            r = s
            for a, b in chain:
                r = r.replace(a, b)
            if al.decode(esc_t.apply(al.encode(s))) != r:
                return Outcome("crashed", "transducer", [], f"escape transducer disagrees with str.replace on {s!r}")
            if al.decode(un_t.apply(al.encode(s))) != un_ref(s):
                return Outcome("crashed", "transducer", [], f"unescape transducer disagrees with the real operation on {s!r}")
    known = ctx.known_lang_patterns(oid)
    cex = TR.identity_counterexample(al, t)
    if cex is None:
        return Outcome.ok("transducer", escape=chain, unescape=un_data)
    wits = []
    s = al.decode(cex)
    wits.append(_witness_for_value(s, f"escape then unescape is not the identity: {s!r} comes back as {al.decode(t.apply(cex))!r}", verifier=f"escape={chain} unescape={un_data}"))
    syms = sorted(t.mentioned) + [al.cls("a")]
    extra = 0
    for L in range(1, 5):
        for tup in itertools.product(syms, repeat=L):
            if t.apply(tup) != tup:
                v = al.decode(tup)
                if not any(_re.fullmatch(k, v, _re.S) for k in known):
                    if extra < 3 and v != s:
                        wits.append(_witness_for_value(v, f"escape then unescape is not the identity on {v!r}"))
                        extra += 1
    return Outcome.refuted("transducer", wits, detail="unescape∘escape ≠ id", escape=chain, unescape=un_data)


def ob_nfc_stable(ctx: Ctx, oid: str) -> Outcome:
    """The emitted text is stable under the NFC pass the reader applies to every line:
    (a) bare values contain only NFC-inert characters; (b) a quoted value has no escape letter
    (the n / t the escape function writes for newline / tab) directly followed by a combining
    character that could compose with it."""
    al = alphabet()
    inert = frozenset(c for c in range(al.n) if c < 128 or (al.sig_of_class[c][6] == 0 and not al.sig_of_class[c][7]))
    try:
        bare = bare_classes()["bare"]
    except ExtractionError as e:
        return Outcome.undecided("declist", str(e))
    bad_bare = bare & A.concat(al, [A.sigma_star(al), al.all - inert, A.sigma_star(al)])
    n = 2
    wits = []
    if not bad_bare.is_empty():
        s = bad_bare.witness_str()
        wits.append(_witness_for_value(s, f"bare value {s!r} contains a character that the reader's NFC pass may change"))
    try:
        chain, _ = emit_escape_chain()
    except ExtractionError as e:
        return Outcome.undecided("ast-shape", str(e))
    hom = TR.homomorphism_of_chain(al, chain) or {}
    for c, img in hom.items():
        last = img[-1]
        if last == c or last >= 128:
            continue
        base = chr(al.rep[last])
        from verif.reglang.alphabet import NFC_BASES

        if base not in NFC_BASES:
            return Outcome.undecided("alphabet", f"escape writes letter {base!r} whose NFC interactions are not part of the alphabet signature")
        bit = 1 << NFC_BASES.index(base)
        composing = [k for k in range(128, al.n) if al.sig_of_class[k][6] & bit]
        if composing:
            v = chr(al.rep[c]) + chr(al.rep[composing[0]])
            wits.append(
                _witness_for_value(
                    v,
                    f"escape writes {al.decode(img)!r} for U+{al.rep[c]:04X}; a following combining character (e.g. U+{al.rep[composing[0]]:04X}) composes with the letter {base!r} under the reader's NFC pass",
                )
            )
    if wits:
        return Outcome.refuted("dfa+unicodedata", wits, count=n)
    return Outcome.ok("dfa+unicodedata", count=n)


# ---- reading side: Parser.parse_value on a standalone scalar token (contracts/parse_scalar.py) ------------------------
PARSE_SCALAR_TEXTS = ["007", "00", "-01", "0042", "42", "-5", "3.50", "00.5", "1e10", "-0.0", "1E5", "true", "false", "null", '"a b"', '""', '"007"', '"true"']


def probe_parse_scalar() -> tuple[bool, str]:
    """concrete stand-in when parse_value leaves the executor's subset: the value read for a scalar text equals the value
    (and type) the lexer put in its single token, as assignment value, list item and last list item"""
    from octave_mcp.core.lexer import tokenize
    from octave_mcp.core.parser import parse

    bad = []
    for t in PARSE_SCALAR_TEXTS:
        toks = [k for k in tokenize(f"K::{t}\n")[0] if k.type.name in ("NUMBER", "STRING", "BOOLEAN", "NULL")]
        if len(toks) != 1:
            continue
        want = toks[0].value
        for ctx_name, text, get in (
            ("assignment", f"===T===\nK::{t}\n===END===\n", lambda d: d.sections[0].value),
            ("list item", f"===T===\nK::[{t},x]\n===END===\n", lambda d: d.sections[0].value.items[0]),
            ("last list item", f"===T===\nK::[x,{t}]\n===END===\n", lambda d: d.sections[0].value.items[1]),
        ):
            try:
                got = get(parse(text))
            except Exception as e:  # noqa: BLE001
                bad.append(f"{t} as {ctx_name}: {type(e).__name__}: {e}")
                continue
            if type(got) is not type(want) or not (got == want or (got != got and want != want)):
                bad.append(f"{t} as {ctx_name}: the lexer's token carries {want!r} ({type(want).__name__}), the parser returns {got!r} ({type(got).__name__})")
    return bool(bad), "; ".join(bad[:3]) or f"{len(PARSE_SCALAR_TEXTS)} scalar texts x 3 positions: parser value == token value"


def probe_parse_layout() -> tuple[bool, str]:
    """concrete stand-in for the layout contracts: differently laid out texts read as the tree of the canonical layout
    (compared through the canonical emission)"""
    from octave_mcp.core.emitter import emit
    from octave_mcp.core.parser import parse

    canon = '===DOC===\nB:\n  K::5\n  J::[a,2]\nT::"x y"\n===END===\n'
    want = emit(parse(canon))
    bad = []
    variants = {f"indent {n}": f'===DOC===\nB:\n{" " * n}K::5\n{" " * n}J::[a,2]\nT::"x y"\n===END===\n' for n in (1, 3, 4, 7, 8)}
    variants["blank lines"] = '===DOC===\n\nB:\n\n  K::5\n\n  J::[a,2]\n\nT::"x y"\n\n===END===\n'
    variants["multi-line list"] = '===DOC===\nB:\n  K::5\n  J::[\n    a,\n    2\n  ]\nT::"x y"\n===END===\n'
    variants["multi-line holographic"] = None
    variants["no end"] = '===DOC===\nB:\n  K::5\n  J::[a,2]\nT::"x y"\n'
    variants["no end, blank"] = '===DOC===\nB:\n  K::5\n  J::[a,2]\nT::"x y"\n\n'
    holo_one = '===DOC===\nF::["example"∧REQ→§SELF]\n===END===\n'
    holo_multi = '===DOC===\nF::[\n    "example"∧REQ→§SELF\n  ]\n===END===\n'
    try:
        if emit(parse(holo_multi)) != emit(parse(holo_one)):
            bad.append(f"multi-line holographic list reads as {emit(parse(holo_multi))!r}, the one-line spelling as {emit(parse(holo_one))!r}")
    except Exception as e:  # noqa: BLE001
        bad.append(f"multi-line holographic list: {type(e).__name__}: {e}")
    for name, text in variants.items():
        if text is None:
            continue
        try:
            got = emit(parse(text))
        except Exception as e:  # noqa: BLE001
            bad.append(f"{name}: {type(e).__name__}: {e}")
            continue
        if got != want:
            bad.append(f"{name}: reads as {got!r}, the canonical layout as {want!r}")
    return bool(bad), "; ".join(bad[:3]) or f"{len(variants)} layouts read as the canonical tree"


def _contract_group(group, probe=None, probe_ref: str = "props.lexical:probe_parse_scalar", ns: str = "parse_scalar"):
    import importlib

    PS = importlib.import_module(f"contracts.{ns}")
    from verif.common import shape_verdict
    from verif.pyvc.adapter import contract_outcome

    def fn(ctx: Ctx) -> Outcome:
        total = dis = 0
        wits: list[Witness] = []
        undecided = []
        extra: dict = {}
        backends: dict = {}
        for ref in group(ctx):
            c = eval("PS." + ref, {"PS": PS})  # noqa: S307 - refs are built below from constant kind names
            out = contract_outcome(c, f"contracts.{ns}:{ref}")
            total += out.count or 0
            dis += out.discharged or 0
            for k, v in (out.extra or {}).get("by_backend", {}).items():
                b = backends.setdefault(k, [0, 0.0])
                b[0] += v[0]
                b[1] = round(b[1] + v[1], 3)
            keep = {k: v for k, v in (out.extra or {}).items() if k in ("inlined", "opaque_calls")} or {k: v for k, v in extra.items() if k != "restricted_to_default_parameters"}
            restricted = sorted(set(extra.get("restricted_to_default_parameters", [])) | set((out.extra or {}).get("restricted_to_default_parameters", [])))
            extra = dict(keep, **({"restricted_to_default_parameters": restricted} if restricted else {}))
            if out.status == "refuted":
                wits += out.witnesses
            elif out.status != "discharged":
                undecided.append(f"{ref}: {out.detail[:160]}")
        extra = dict(extra, by_backend=backends)
        if wits:
            return Outcome.refuted("pyvc/z3", wits[:6], count=total, discharged=dis, **extra)
        if undecided:
            return shape_verdict("pyvc", undecided, probe or probe_parse_scalar, total or 1, {"runner": probe_ref, "args": {}})
        return Outcome.ok("pyvc/z3", count=total, **extra)

    return fn



def parse_scalar_obs(P: str) -> list[Ob]:
    from contracts import parse_scalar as PS

    make = _contract_group
    pv = "octave_mcp.core.parser:Parser.parse_value"
    pl = "octave_mcp.core.parser:Parser.parse_list"
    ps = "octave_mcp.core.parser:Parser.parse_section"
    obs = [
        Ob(f"{P}.P.read.{k}", "P", f"Parser.parse_value on a standalone {k} token (before a line end, comma, closing bracket, end of input) returns the token's value object itself and consumes exactly that token", [pv], make(lambda ctx, k=k: [f"standalone({k!r}, {f!r})" for f in PS.FOLLOW]))
        for k in PS.KINDS
    ]
    obs.append(Ob(f"{P}.P.read.assign", "P", "Parser.parse_section on KEY::<scalar> returns Assignment(key = the key token's text, value = the scalar token's value), for each scalar token kind", [ps, pv], make(lambda ctx: [f"assignment({k!r})" for k in PS.KINDS])))
    obs.append(Ob(f"{P}.P.read.list", "P", "Parser.parse_list on [v1,v2] / [v] / [] returns ListValue(items = the tokens' values in order) at any nesting depth below the limit, in both strictness modes", [pl, pv], make(lambda ctx: ["list_of(())"] + [f"list_of(({k!r},))" for k in PS.KINDS] + [f"list_of({pr!r})" for pr in PS.pairs(ctx.thorough)])))
    obs.append(Ob(f"{P}.P.read.map", "P", "Parser.parse_list on [KEY::<scalar>] returns ListValue([InlineMap({key text: the token's value})])", [pl, "octave_mcp.core.parser:Parser.parse_list_item", pv], make(lambda ctx: [f"inline_map({k!r})" for k in PS.KINDS])))
    obs.append(Ob(f"{P}.P.read.assign-list", "P", "Parser.parse_section on KEY::[v1,v2] composes the two", [ps, pl, pv], make(lambda ctx: [f"assignment_list({a!r}, {b!r})" for a, b in (("NUMBER", "STRING"), ("IDENTIFIER", "BOOLEAN"), ("NULL", "VARIABLE"))])))
    pm = "octave_mcp.core.parser:Parser.parse_meta_block"
    pd = "octave_mcp.core.parser:Parser.parse_document"
    obs.append(Ob(f"{P}.P.read.meta", "P", "Parser.parse_meta_block on META: / KEY::<scalar> returns {key text: the scalar token's value}", [pm, pv], make(lambda ctx: [f"meta_field({k!r})" for k in PS.KINDS])))
    obs.append(Ob(f"{P}.P.read.block", "P", "Parser.parse_section on NAME: / indented KEY::<scalar> returns Block(NAME, [Assignment(key text, the scalar token's value)])", [ps, pv], make(lambda ctx: [f"block_child({k!r})" for k in PS.KINDS])))
    obs.append(Ob(f"{P}.P.read.comments", "P", "Parser.parse_document on // lead / KEY::<scalar> // trail: the comment tokens' texts become the assignment's leading_comments / trailing_comment, the value is the token's value", [pd, ps, pv], make(lambda ctx: [f"with_comments({k!r})" for k in PS.KINDS] + ["trailing_comment_after_multiline_list('IDENTIFIER', 'NUMBER')", "trailing_comment_after_multiline_list('STRING', 'IDENTIFIER')"])))
    obs.append(Ob(f"{P}.P.read.expression", "P", "Parser.parse_section on KEY::A op B [op C] for each of the seven expression operators: the value is the operand and operator token texts concatenated in order", [ps, pv, "octave_mcp.core.parser:Parser.parse_flow_expression"], make(lambda ctx: [f"expression(({o!r},))" for o in PS.OPS] + ["expression(('FLOW', 'SYNTHESIS'))", "expression(('CONSTRAINT', 'ALTERNATIVE'))", "expression(('AT', 'FLOW'))"])))
    obs.append(Ob(f"{P}.P.read.section", "P", "Parser.parse_section on §7::NAME / indented KEY::<scalar> returns Section('7', NAME, [Assignment]); NAME[→§T]: / KEY::<scalar> returns Block(NAME, target T, [Assignment])", [ps, "octave_mcp.core.parser:Parser.parse_section_marker", pv], make(lambda ctx: [f"section_marker({k!r})" for k in PS.KINDS] + [f"block_target({k!r})" for k in PS.KINDS])))
    obs.append(Ob(f"{P}.P.read.parent", "P", "which parent a field belongs to: a block / a §-section with two children and a comment line between them at column 0 or indented LESS than the children (a field commented out at the margin) - the second child, indented like the first or deeper (both widths symbolic), stays a child of the container and the comment leads it", [ps, "octave_mcp.core.parser:Parser.parse_section_marker", pv], make(lambda ctx: [f"children_around_comment({h!r}, {k!r}, {sh!r})" for h in ("block", "section") for sh in (False, True) for k in (PS.KINDS if ctx.thorough else ("IDENTIFIER", "NUMBER"))])))
    obs.append(Ob(f"{P}.P.read.document", "P", "Parser.parse_document on ===DOC=== / KEY::<scalar> / ===END=== returns Document(DOC, [Assignment(key text, the scalar token's value)])", [pd, ps, pv], make(lambda ctx: [f"document({k!r})" for k in PS.KINDS])))
    return obs


def parse_layout_obs(P: str) -> list[Ob]:
    """C03 at the parser level: the lenient layout freedoms give the tree of the canonical layout, for all values"""
    from contracts import parse_scalar as PS

    def make(group):
        return _contract_group(group, probe_parse_layout, "props.lexical:probe_parse_layout")

    ps = "octave_mcp.core.parser:Parser.parse_section"
    pl = "octave_mcp.core.parser:Parser.parse_list"
    pd = "octave_mcp.core.parser:Parser.parse_document"
    pv = "octave_mcp.core.parser:Parser.parse_value"
    return [
        Ob(f"{P}.P.read.indent", "P", "indentation width: NAME: / KEY::<scalar> indented by ANY n >= 1 spaces (INDENT value symbolic) reads as the same Block", [ps, pv], make(lambda ctx: [f"block_child_lenient({k!r}, False)" for k in PS.KINDS])),
        Ob(f"{P}.P.read.blank-lines", "P", "blank lines after a block header, after a child, around a top-level assignment read as the same tree", [ps, pd, pv], make(lambda ctx: [f"block_child_lenient({k!r}, True)" for k in PS.KINDS] + [f"document_lenient({k!r}, 'blank')" for k in PS.KINDS])),
        Ob(f"{P}.P.read.multi-line-list", "P", "a list written one item per line (any indentation widths) reads as the items of the one-line list", [pl, pv], make(lambda ctx: [f"list_multiline({a!r}, {b!r})" for a, b in PS.pairs(ctx.thorough)])),
        Ob(f"{P}.P.read.no-end", "P", "an omitted ===END=== (with and without blank lines) reads as the same Document", [pd, ps, pv], make(lambda ctx: [f"document_lenient({k!r}, {v!r})" for k in PS.KINDS for v in ("no-end", "both")])),
        Ob(f"{P}.P.read.holographic-layout", "P", "a holographic pattern list written on one line, one item per line, split over lines or with a comment line reconstructs to the same pattern text (layout tokens never reach it)", ["octave_mcp.core.parser:Parser._reconstruct_pattern_from_tokens"], make(lambda ctx: [f"holographic_reconstruct({l!r})" for l in PS.HOLO_LAYOUTS])),
        Ob(f"{P}.P.read.optional-quotes", "P", "a plain word reads as the same str whether it arrives as a STRING or as an IDENTIFIER token (parse_value returns the token's value in both cases, every follow context)", [pv], make(lambda ctx: [f"standalone({k!r}, {f!r})" for k in ("STRING", "IDENTIFIER") for f in PS.FOLLOW])),
    ]


def probe_parse_receipts() -> tuple[bool, str]:
    """concrete stand-in for the parser receipt contracts: multi-word values yield exactly one coalescing receipt at the
    first word, canonical assignments none, KEY -> v exactly one bare-flow receipt at the operator"""
    from octave_mcp.core.parser import parse_with_warnings

    bad = []

    def receipts(text):
        return [w for w in parse_with_warnings(text)[1] if w.get("type") in ("lenient_parse", "spec_violation")]

    for words, col in (("alpha beta", 4), ("alpha beta gamma", 4), ("rel 2", 4), ("12 monkeys", 4)):
        doc, ws = parse_with_warnings(f"===D===\nK::{words}\n===END===\n")
        mw = [w for w in ws if w.get("subtype") == "multi_word_coalesce"]
        if doc.sections[0].value != words or len(mw) != 1 or mw[0].get("result") != words or (mw[0].get("line"), mw[0].get("column")) != (2, col):
            bad.append(f"K::{words}: value {doc.sections[0].value!r}, coalescing receipts {[(w.get('result'), w.get('line'), w.get('column')) for w in mw]}")
    for v in ("5", '"a b"', "true", "null", "word", "$v"):
        r = receipts(f"===D===\nK::{v}\n===END===\n")
        if r:
            bad.append(f"canonical K::{v} yields receipts {[w.get('subtype') for w in r]}")
    for v in ("5", "word", '"s"'):
        r = [w for w in receipts(f"===D===\nK → {v}\n===END===\n") if w.get("subtype") == "bare_flow"]
        if len(r) != 1 or (r[0].get("line"), r[0].get("column")) != (2, 3):
            bad.append(f"K → {v}: bare-flow receipts {[(w.get('line'), w.get('column')) for w in r]}")
    return bool(bad), "; ".join(bad[:3]) or "multi-word / canonical / bare-flow probes: receipts as specified"


def parse_receipt_obs(P: str) -> list[Ob]:
    """C07 at the parser level (contracts/parse_receipts.py)"""
    from contracts import parse_receipts as PR
    from contracts import parse_scalar as PS

    def make(group):
        return _contract_group(group, probe_parse_receipts, "props.lexical:probe_parse_receipts", ns="parse_receipts")

    ps = "octave_mcp.core.parser:Parser.parse_section"
    pv = "octave_mcp.core.parser:Parser.parse_value"
    return [
        Ob(f"{P}.P.parse.multiword", "P", "multi-word bare value: the value is the words joined by one space and exactly one multi_word_coalesce receipt is appended (result = the value, original = the words, position = the first word)", [ps, pv], make(lambda ctx: [f"multiword({k!r})" for k in PR.MULTIWORD_KINDS])),
        Ob(f"{P}.P.parse.canonical", "P", "a canonical KEY::<scalar> line appends no receipt (PATTERN / REGEX keys: exactly the documented auto-quote receipt at the key)", [ps, pv], make(lambda ctx: [f"canonical({k!r})" for k in PS.KINDS])),
        Ob(f"{P}.P.parse.bare-flow", "P", "KEY -> <scalar> reads as the assignment and appends exactly one bare_flow receipt at the operator's line/column", [ps, pv], make(lambda ctx: [f"bare_flow({k!r})" for k in PS.KINDS])),
    ]


def probe_emit_layout() -> tuple[bool, str]:
    """concrete stand-in for the emitter layout contracts: API-built documents are emitted in the strict layout"""
    from octave_mcp.core.ast_nodes import Assignment, Block, Document
    from octave_mcp.core.emitter import emit, emit_value

    bad = []
    for v in (2.5e-07, 1.25e-05, 1e22, -0.0, 1.5):
        if emit_value(v, 0) != repr(v):
            bad.append(f"float {v!r} is written as {emit_value(v, 0)!r}, not as {repr(v)!r}")
    for v in (5, "x", "a b", True, None):
        e0, e1, e2 = emit_value(v, 0), emit_value(v, 1), emit_value(v, 2)
        d = Document(name="N", meta={"TYPE": v, "SUB": {"I": v}}, sections=[Assignment(key="K", value=v), Block(key="B", children=[Assignment(key="C", value=v), Block(key="D", children=[Assignment(key="E", value=v)])]), Assignment(key="Z", value=v)])
        want = f"===N===\nMETA:\n  TYPE::{e1}\n  SUB:\n    I::{e2}\nK::{e0}\nB:\n  C::{e1}\n  D:\n    E::{e2}\nZ::{e0}\n===END===\n"
        got = emit(d)
        if got != want:
            bad.append(f"value {v!r}: emitted {got!r}, strict layout {want!r}")
    return bool(bad), "; ".join(bad[:2]) or "5 API-built documents (META with a nested level, blocks two deep, siblings) are emitted in the strict layout"


def emit_layout_obs(P: str) -> list[Ob]:
    """the strict-profile layout of the real emitter on document spines (contracts/emit_layout.py)"""
    from contracts import emit_layout as EL

    def make(group):
        return _contract_group(group, probe_emit_layout, "props.lexical:probe_emit_layout", ns="emit_layout")

    fns = ["octave_mcp.core.emitter:emit", "octave_mcp.core.emitter:emit_assignment", "octave_mcp.core.emitter:emit_block", "octave_mcp.core.emitter:emit_meta"]
    value_ob = Ob(f"{P}.P.emit.value", "P", "emit_value on scalars: int -> its decimal text, float -> Python's own str of the float, bool -> true / false, None -> null, str -> itself when needs_quotes says no, a double-quoted text otherwise", ["octave_mcp.core.emitter:emit_value"], make(lambda ctx: [f"value_scalar({k!r})" for k in ("int", "float", "bool", "null", "str")]))
    return [value_ob, Ob(f"{P}.P.emit.layout", "P", "emit on document spines (top-level assignment, blocks 1-3 deep, siblings, META with a nested level): the text is exactly the strict layout - explicit ===NAME=== / ===END===, KEY::value with no space, two spaces per level, one final newline - around the value texts emit_value returns", fns, make(lambda ctx: EL.all_contracts(ctx.thorough)))]


# ---- the token stream is append-only (one documented in-place merge) -------------------------------------------------------
def probe_literal_lookalikes() -> tuple[bool, str]:
    """strings that look like literals in another case / another language come back as the same strings"""
    from octave_mcp.core.ast_nodes import Assignment, Block, Document, InlineMap, ListValue
    from octave_mcp.core.emitter import emit
    from octave_mcp.core.parser import parse

    bad = []
    for v in ("True", "TRUE", "False", "FALSE", "Null", "NULL", "None", "none", "Yes", "NO", "tRuE", "nil", "NaN", "Infinity", "60%", "100%_done"):
        doc = Document(name="T", meta={"M": v}, sections=[Assignment(key="K", value=v), Assignment(key="L", value=ListValue(items=[v, "x"])), Assignment(key="I", value=ListValue(items=[InlineMap(pairs={"k": v})])), Block(key="B", children=[Assignment(key="C", value=v)])])
        try:
            d2 = parse(emit(doc))
        except Exception as e:  # noqa: BLE001
            bad.append(f"{v!r}: canonical text is refused: {type(e).__name__}: {e}")
            continue
        got = {"assignment": d2.sections[0].value, "list item": d2.sections[1].value.items[0], "inline-map value": d2.sections[2].value.items[0].pairs.get("k"), "block child": d2.sections[3].children[0].value, "META field": d2.meta.get("M")}
        for where, g in got.items():
            if g != v or type(g) is not str:
                bad.append(f"{v!r} as {where} reads back as {g!r} ({type(g).__name__})")
    return bool(bad), "; ".join(bad[:3]) or "16 literal look-alikes x 5 positions come back as the same strings"


def ob_token_stream_frame(ctx: Ctx) -> Outcome:
    """tokenize only ever APPENDS to its token list - the step model's 'one fired entry = one token' - except for the one
    documented in-place merge of a trailing % into the previous NUMBER / IDENTIFIER token (inside the fall-back's
    `content[pos] == '%'` branch, producing an IDENTIFIER). No other store, delete or mutating call touches `tokens`."""
    from verif.common import shape_verdict

    try:
        fn = extract.find_def(LEXER, "tokenize")
    except ExtractionError as e:
        return Outcome.undecided("ast-shape", str(e))
    parents: dict[int, ast.AST] = {}
    for n in ast.walk(fn):
        for c in ast.iter_child_nodes(n):
            parents[id(c)] = n

    def under_percent_branch(n: ast.AST) -> bool:
        while id(n) in parents:
            n = parents[id(n)]
            if isinstance(n, ast.If) and ast.unparse(n.test).startswith("content[pos] == '%'"):
                return True
        return False

    problems, appends, merges = [], 0, 0
    for n in ast.walk(fn):
        if not (isinstance(n, ast.Name) and n.id == "tokens"):
            continue
        par = parents.get(id(n))
        if isinstance(n.ctx, ast.Store):
            if not (isinstance(par, (ast.Assign, ast.AnnAssign)) and isinstance(par.value, ast.List) and not par.value.elts):
                problems.append(f"L{n.lineno}: `tokens` is rebound")
            continue
        if isinstance(par, ast.Attribute):
            if par.attr == "append":
                appends += 1
            else:
                problems.append(f"L{n.lineno}: tokens.{par.attr}(...) (only append is part of the contract)")
        elif isinstance(par, ast.Subscript) and isinstance(par.ctx, (ast.Store, ast.Del)):
            st = parents.get(id(par))
            ok = isinstance(st, ast.Assign) and under_percent_branch(par) and isinstance(st.value, ast.Call) and ast.unparse(st.value.func) == "Token" and st.value.args and ast.unparse(st.value.args[0]) == "TokenType.IDENTIFIER" and ast.unparse(par.slice) == "-1"
            if ok:
                merges += 1
            else:
                problems.append(f"L{n.lineno}: `{ast.unparse(st)[:70] if st is not None else ast.unparse(par)}` replaces or deletes an already emitted token")
    if merges > 1:
        problems.append(f"{merges} in-place merges (one is documented)")
    # the fall-back branch (no table entry fired) builds only IDENTIFIER tokens and the ⊕ token for '+': the step model's
    # identifier scanner has no other outcome
    for n in ast.walk(fn):
        if isinstance(n, ast.If) and ast.unparse(n.test) == "not matched":
            for c in ast.walk(n):
                if isinstance(c, ast.Call) and ast.unparse(c.func) == "Token" and c.args:
                    kind = ast.unparse(c.args[0])
                    if kind not in ("TokenType.IDENTIFIER", "TokenType.SYNTHESIS"):
                        problems.append(f"L{c.lineno}: the fall-back branch builds a {kind} token (only IDENTIFIER and the ⊕ of '+' are part of the contract)")
    if appends == 0:
        return Outcome.undecided("ast-shape", "no tokens.append(...) in tokenize")
    if problems:
        return shape_verdict("ast-frame", problems, probe_literal_lookalikes, appends + merges, {"runner": "props.lexical:probe_literal_lookalikes", "args": {}})
    return Outcome.ok("ast-frame", count=appends + merges, appends=appends, in_place_merges=merges)


# ---- frontmatter stripping keeps the body byte for byte (split / join on the same literal separator) --------------------------
LINE_BOUNDARY_CHARS = [" ", " ", "\x85", "\x0b", "\x0c", "\x1c", "\x1d", "\x1e", "\r"]


def probe_frontmatter_body() -> tuple[bool, str]:
    """a document with YAML frontmatter whose values / comments hold Unicode line-boundary characters other than LF: the
    body is read exactly as without frontmatter (values intact, receipt lines shifted by the frontmatter's line count only)"""
    from octave_mcp.core.parser import parse_with_warnings

    bad = []
    fm = "---\nname: x\ndescription: y\n---\n\n"
    for ch in LINE_BOUNDARY_CHARS:
        if ch == "\r":
            body = '===D===\nK::"a\\u000db"\nL::x->y\n===END===\n'.replace("\\u000d", "\r")
        else:
            body = f'===D===\nK::"a{ch}b"\n// c{ch}d\nL::x->y\n===END===\n'
        try:
            d0, w0 = parse_with_warnings(body)
            d1, w1 = parse_with_warnings(fm + body)
        except Exception as e:  # noqa: BLE001
            bad.append(f"U+{ord(ch):04X}: {type(e).__name__}: {e}")
            continue
        # a literal zone holding the character, behind frontmatter: content byte for byte
        zdoc = f"===Z===\nK::\n```\nl1{ch}l2\n```\n===END===\n"
        try:
            z0 = parse_with_warnings(zdoc)[0].sections[0].value.content
            z1 = parse_with_warnings(fm + zdoc)[0].sections[0].value.content
            if z0 != z1 or z1 != f"l1{ch}l2":
                bad.append(f"U+{ord(ch):04X}: zone content behind frontmatter {z1!r}, without {z0!r}")
        except Exception as e:  # noqa: BLE001
            bad.append(f"U+{ord(ch):04X} in a zone: {type(e).__name__}: {e}")
        v0, v1 = d0.sections[0].value, d1.sections[0].value
        if v0 != v1:
            bad.append(f"U+{ord(ch):04X}: the value reads as {v1!r} behind frontmatter, {v0!r} without")
        l0 = sorted((w.get("line"), w.get("column"), str(w.get("original"))) for w in w0 if w.get("type") == "normalization")
        l1 = sorted((w.get("line") - 5 if isinstance(w.get("line"), int) else None, w.get("column"), str(w.get("original"))) for w in w1 if w.get("type") == "normalization")
        if l0 != l1:
            bad.append(f"U+{ord(ch):04X}: receipts behind frontmatter {l1} (lines minus the 5 frontmatter lines), without {l0}")
    # every SHAPE of frontmatter block (empty, one line, blank lines only, several lines, no blank line after it): the body is
    # read the same and every receipt sits exactly `number of lines before the envelope` lower - the receipt must point at its
    # own occurrence in the text that was submitted (C07)
    body = '===D===\nL::x->y\nM::"""t"""\nN::a b c\n===END===\n'
    d0, w0 = parse_with_warnings(body)
    base = sorted((w.get("line"), w.get("column"), str(w.get("original"))) for w in w0 if isinstance(w.get("line"), int))
    for fmx in ("---\n---\n", "---\n---\n\n", "---\n\n---\n", "---\n\n\n---\n\n", "---\na: 1\n---\n", "---\na: 1\nb: |\n  x\n\n  y\n---\n\n\n", "---\n# only a comment\n---\n"):
        shift = fmx.count("\n")
        try:
            d1, w1 = parse_with_warnings(fmx + body)
        except Exception as e:  # noqa: BLE001
            bad.append(f"frontmatter {fmx!r}: {type(e).__name__}: {e}")
            continue
        got = sorted((w.get("line") - shift, w.get("column"), str(w.get("original"))) for w in w1 if isinstance(w.get("line"), int))
        if got != base:
            bad.append(f"frontmatter {fmx!r} ({shift} lines): receipts (line - {shift}, column, original) {got}, without frontmatter {base}")
        text = fmx + body
        tl = text.split("\n")
        for w in w1:
            o = w.get("original")
            if w.get("type") == "normalization" and isinstance(o, str) and isinstance(w.get("line"), int) and isinstance(w.get("column"), int):
                ln = tl[w["line"] - 1] if 0 < w["line"] <= len(tl) else ""
                if not ln[w["column"] - 1:].startswith(o):
                    bad.append(f"frontmatter {fmx!r}: receipt {o!r} at {w['line']}:{w['column']} does not point at its occurrence (that line is {ln!r})")
    return bool(bad), "; ".join(bad[:3]) or f"{len(LINE_BOUNDARY_CHARS)} line-boundary characters, 7 frontmatter shapes: body read identically with and without frontmatter, receipts at their occurrences"


def ob_frontmatter_split_join(ctx: Ctx) -> Outcome:
    """_strip_yaml_frontmatter cuts the text into lines and glues the rest back with the SAME literal separator "\\n"
    (split("\\n") ... "\\n".join(...)): whatever else a line contains - U+2028, U+0085, form feed, a lone CR - passes
    through untouched, and line numbers keep counting LF only. No splitlines(), no other separator."""
    from verif.common import shape_verdict

    try:
        fn = extract.find_def("octave_mcp.core.parser", "_strip_yaml_frontmatter")
    except ExtractionError as e:
        return Outcome.undecided("ast-shape", str(e))
    problems = []
    splits = [n for n in ast.walk(fn) if isinstance(n, ast.Call) and isinstance(n.func, ast.Attribute) and n.func.attr in ("split", "splitlines", "rsplit", "partition")]
    joins = [n for n in ast.walk(fn) if isinstance(n, ast.Call) and isinstance(n.func, ast.Attribute) and n.func.attr == "join"]
    for c in splits:
        if c.func.attr != "split" or len(c.args) != 1 or not (isinstance(c.args[0], ast.Constant) and c.args[0].value == "\n"):
            problems.append(f"L{c.lineno}: the text is cut with `{ast.unparse(c)[:50]}` (only split('\\n') keeps every other character inside its line)")
    for c in joins:
        if not (isinstance(c.func.value, ast.Constant) and c.func.value.value == "\n"):
            problems.append(f"L{c.lineno}: lines are glued with {ast.unparse(c.func.value)[:20]} instead of '\\n'")
    if not splits or not joins:
        problems.append("no split('\\n') / '\\n'.join(...) pair found")
    if problems:
        return shape_verdict("ast-frame", problems, probe_frontmatter_body, max(1, len(splits) + len(joins)), {"runner": "props.lexical:probe_frontmatter_body", "args": {}})
    return Outcome.ok("ast-frame", count=len(splits) + len(joins))
