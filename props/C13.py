"""C13 — what a compiled grammar can generate, the validator accepts."""
from __future__ import annotations

import ast
import sys

from props import lexical as LX
from verif import extract, gbnf
from verif.common import Ctx, Ob, Outcome, Witness
from verif.extract import ExtractionError
from verif.reglang import automata as A
from verif.reglang import tokmodel
from verif.reglang.alphabet import alphabet

PROPERTY = "C13"
LEVEL = "other"
LEVEL_TEXT = "for the schema-independent kinds the inclusion 'generated ⊆ read as the right token' is decided for ALL derivations: the fragment the real compiler returns for TYPE[NUMBER], TYPE[BOOLEAN], DATE and ISO8601 is parsed by the reference GBNF reader, turned into an automaton, and (after the field rule's separator language) shown to fire exactly one NUMBER / BOOLEAN / STRING token in the step model of the real tokenize (R1-R3); acceptance of the token's value is then a regular inclusion against the constraint's acceptance language for DATE/ISO8601 (calendar and clock ranges written from datetime.fromisoformat; R4) and type facts proved in C08 for NUMBER/BOOLEAN; the selection rule of compile_chain is a discharged contract over chains of 1-3 members whose kinds are symbolic (P2); CONST/ENUM literals are emit_value spellings (F2), so C04's round trip and C08's exact-match clauses give acceptance (lemma by reference, not re-proved). Per-schema behaviour (CONST/ENUM pools, chains with REQ/OPT, all routes) is bounded: exhaustive derivation for finite rules, boundary sampling filtered by grammar membership for the infinite ones"
LEVEL_NOTE = "unbounded for the four schema-independent kinds up to the conversion step (int() digit limit is a separate, refuted, obligation); CONST/ENUM rest on C04 (bare/quoted scalar round trip, with its known findings) and C08 member contracts; chains, names and routes are bounded"
TECHNIQUE = "pre/postconditions on the real parser (a derived KEY::<number> line is read as the NUMBER token's value; contracts/parse_scalar.py) + regular-language inclusion between the language of the real compiled fragment (reference GBNF reader -> automaton) and the real tokenizer's step model / the constraint's acceptance language; pre/postcondition on compile_chain with symbolic member kinds (z3); bounded derivation sweep through the real reader and ConstraintChain.evaluate"
EXPLANATION = "C13: R1 NUMBER, R2 BOOLEAN, R3 DATE/ISO8601 token inclusion, R4 DATE/ISO8601 acceptance inclusion, R5 conversion totality, P2 chain selection (symbolic kinds), F2 literal spelling, B1 derivations of schema pools through reader + chain."
ASSUMPTIONS = [
    "reference GBNF semantics (verif/gbnf.py) for what a rule derives",
    "tokenizer step model of verif.reglang.tokmodel (skeleton-checked against the AST, differentially tested)",
    "datetime.fromisoformat acceptance for the shapes the grammar derives: year 0001-9999, calendar-valid day, 00-23:00-59:00-59, offset hh 00-23 mm 00-59 (cross-checked on the boundary pool in B1)",
    "C04 (scalar round trip) and C08 (member contracts) are used as lemmas for CONST/ENUM",
]
TRUSTED_BASE = ["verif.reglang", "verif.gbnf", "verif.pyvc", "z3"]
GB = "octave_mcp.core.gbnf_compiler"
FUNCS = [f"{GB}:GBNFCompiler.compile_chain", f"{GB}:GBNFCompiler._compile_type", f"{GB}:GBNFCompiler._compile_date", f"{GB}:GBNFCompiler._compile_iso8601", f"{GB}:GBNFCompiler._compile_const", f"{GB}:GBNFCompiler._compile_enum", "octave_mcp.core.lexer:tokenize", "octave_mcp.core.constraints:ConstraintChain.evaluate"]


# ---- GBNF fragment -> automaton ------------------------------------------------------------------------------------------


def to_frag(b: A.Builder, node, g: gbnf.Grammar | None = None, depth: int = 0):
    al = b.al
    if isinstance(node, gbnf.Lit):
        return b.lit(node.text)
    if isinstance(node, gbnf.CharClass):
        cs = set()
        for c in range(al.n):
            members_in = None
            if c < 128:
                members_in = node.contains(chr(c))
            else:
                # non-ASCII class: all members must agree (else outside reach)
                ms = al.members(c)
                vals = {node.contains(chr(m)) for m in (ms[0], ms[-1], ms[len(ms) // 2])}
                if len(vals) != 1:
                    raise A.OutsideReach("GBNF class splits an alphabet class")
                members_in = vals.pop()
            if members_in:
                cs.add(c)
        return b.cset(frozenset(cs))
    if isinstance(node, gbnf.Any):
        return b.cset(al.all)
    if isinstance(node, gbnf.Seq):
        return b.cat([to_frag(b, x, g, depth) for x in node.items])
    if isinstance(node, gbnf.Alt):
        return b.alt([to_frag(b, x, g, depth) for x in node.options])
    if isinstance(node, gbnf.Repeat):
        parts = [to_frag(b, node.item, g, depth) for _ in range(node.min)]
        if node.max is None:
            parts.append(b.star(to_frag(b, node.item, g, depth)))
        else:
            for _ in range(node.max - node.min):
                parts.append(b.opt(to_frag(b, node.item, g, depth)))
        return b.cat(parts)
    if isinstance(node, gbnf.Ref):
        if g is None or node.name not in g.rules or depth > 8:
            raise A.OutsideReach(f"rule reference {node.name}")
        return to_frag(b, g.rules[node.name], g, depth + 1)
    raise A.OutsideReach(f"GBNF node {type(node).__name__}")


def fragment_dfa(fragment: str) -> A.DFA:
    al = alphabet()
    g = gbnf.parse_gbnf("root ::= " + fragment + "\n")
    b = A.Builder(al)
    return A.DFA.from_nfa(b.finish(to_frag(b, g.rules["root"], g)), al, None)


def real_fragment(kind: str) -> str:
    from octave_mcp.core.constraints import ConstraintChain
    from octave_mcp.core.gbnf_compiler import GBNFCompiler

    return GBNFCompiler().compile_chain(ConstraintChain.parse(kind))


def separator_dfa() -> A.DFA:
    """what the real field rule allows between '::' and the value (read from compile_schema's template)"""
    fn = extract.find_def(GB, "GBNFCompiler.compile_schema")
    for n in ast.walk(fn):
        if isinstance(n, ast.JoinedStr):
            text = "".join(v.value if isinstance(v, ast.Constant) else "\x00" for v in n.values)
            if text.startswith("\x00 ::= \"\x00\" \"::\" ") and text.endswith(" \x00"):
                sep = text[len("\x00 ::= \"\x00\" \"::\" "):-2]
                if sep == "ws":
                    sep = "[ \\t\\n]*"
                return fragment_dfa(sep)
    raise ExtractionError("compile_schema: field rule template `<name> ::= \"<NAME>\" \"::\" <sep> <pattern>` not found")


def replay_line(value_text: str, chain: str = "TYPE[NUMBER]", sep: str = ""):
    """FIELD::<sep><value_text> through the real reader and the real chain"""
    from octave_mcp.core.constraints import ConstraintChain
    from octave_mcp.core.parser import parse

    text = "===D===\nF::" + sep + value_text + "\n===END===\n"
    try:
        d = parse(text)
    except Exception as e:  # noqa: BLE001
        return True, f"{chain}: generated line {('F::' + sep + value_text)[:80]!r} is refused by the reader: {type(e).__name__}: {str(e)[:100]}"
    secs = [n for n in d.sections if getattr(n, "key", None) == "F"]
    if len(secs) != 1 or len(d.sections) != 1:
        return True, f"{chain}: generated line {('F::' + sep + value_text)[:80]!r} is read as {[(getattr(n, 'key', None), getattr(n, 'value', None)) for n in d.sections]!r}"
    v = secs[0].value
    r = ConstraintChain.parse(chain).evaluate(v, "F")
    if not r.valid:
        return True, f"{chain}: generated line {('F::' + sep + value_text)[:80]!r} is read as {v!r} ({type(v).__name__}) and rejected: {r.errors[0].message[:100] if r.errors else ''}"
    return False, f"{chain}: generated line {('F::' + sep + value_text)[:60]!r} is read as {v!r} and accepted"


def _token_inclusion(ctx: Ctx, oid: str, kind: str, token: str | int, what: str) -> Outcome:
    """(separator · L(fragment) · MARK · line end) ⊆ skip-spaces then ONE token of the right type consuming the value"""
    al = alphabet()
    try:
        frag = real_fragment(kind)
        lang = fragment_dfa(frag)
        sep = separator_dfa()
    except (ExtractionError, gbnf.GBNFError, A.OutsideReach) as e:
        return Outcome.undecided("dfa", f"{type(e).__name__}: {e}")
    n = 0
    wits = []
    # separator: only spaces (the tokenizer skips inline spaces; tab is an error, newline ends the assignment)
    spaces = A.dfa_regex(r" *", 0, None, al)
    bad_sep = sep - spaces
    n += 1
    if not bad_sep.is_empty():
        s = bad_sep.witness_str()
        failed, text = replay_line("5" if kind == "TYPE[NUMBER]" else _sample(kind), kind, s)
        wits.append(Witness(what=f"the field rule lets {s!r} stand between '::' and the value: {text}", input=s, key=f"separator:{s!r}", replay={"runner": "props.C13:replay_line", "args": {"value_text": "5" if kind == "TYPE[NUMBER]" else _sample(kind), "chain": kind, "sep": s}}, confirmed=failed))
    for pc in (":", " "):
        sm = tokmodel.step_model(pc)
        fire = sm.fire_by_type(token) if isinstance(token, str) else sm.Fire[token]
        x = A.concat(al, [lang, A.nfa_mark(al), LX._follow_tail(al)])
        bad = LX.prefix_before_mark(x - fire)
        n += 1
        if not bad.is_empty():
            cur = bad
            for _ in range(3):
                w = cur.witness()
                if w is None:
                    break
                s = al.decode(w)
                failed, text = replay_line(s, kind)
                wits.append(Witness(what=f"{what}: {text}", input=s, key=s, replay={"runner": "props.C13:replay_line", "args": {"value_text": s, "chain": kind}}, confirmed=failed, verifier_output=f"fragment {frag!r}; after {pc!r}"))
                cur = cur - A.concat(al, [s])
    if wits:
        return Outcome.refuted("dfa", wits, count=n)
    return Outcome.ok("dfa", count=n, fragment=frag, fragment_states=lang.size())


def _sample(kind: str) -> str:
    return {"TYPE[BOOLEAN]": "true", "DATE": '"2024-01-15"', "ISO8601": '"2024-01-15T10:00:00Z"'}.get(kind, "5")


def ob_number(ctx: Ctx) -> Outcome:
    return _token_inclusion(ctx, "C13.R1", "TYPE[NUMBER]", "NUMBER", "a derivation of the NUMBER rule is not read as one NUMBER token")


def ob_boolean(ctx: Ctx) -> Outcome:
    return _token_inclusion(ctx, "C13.R2", "TYPE[BOOLEAN]", "BOOLEAN", "a derivation of the BOOLEAN rule is not read as one BOOLEAN token")


def ob_date_token(ctx: Ctx, kind: str) -> Outcome:
    try:
        si = LX._string_pattern_index()
    except ExtractionError as e:
        return Outcome.undecided("ast-shape", str(e))
    return _token_inclusion(ctx, "C13.R3", kind, si, f"a derivation of the {kind} rule is not read as one quoted STRING token")


# ---- R4: acceptance languages for DATE / ISO8601 -----------------------------------------------------------------------------


def _calendar_regex() -> str:
    """YYYY-MM-DD accepted by datetime.fromisoformat: year 0001..9999, calendar-valid day"""
    d = "[0-9]"
    year = rf"(?:{d}{d}{d}[1-9]|{d}{d}[1-9]0|{d}[1-9]00|[1-9]000)"
    yy4 = r"(?:0[48]|[2468][048]|[13579][26])"  # two digits, multiple of 4, not 00
    leap = rf"(?:{d}{d}{yy4}|{yy4}00)"
    m31 = r"(?:0[13578]|1[02])"
    m30 = r"(?:0[469]|11)"
    d28 = r"(?:0[1-9]|1[0-9]|2[0-8])"
    d30 = r"(?:0[1-9]|[12][0-9]|30)"
    d31 = r"(?:0[1-9]|[12][0-9]|3[01])"
    return rf"(?:{year}-(?:{m31}-{d31}|{m30}-{d30}|02-{d28})|{leap}-02-29)"


def _time_regex() -> str:
    hh = r"(?:[01][0-9]|2[0-3])"
    mm = r"[0-5][0-9]"
    return rf"T{hh}:{mm}:{mm}(?:Z|[+-]{hh}:{mm})?"


def replay_accept(kind: str, text: str):
    from octave_mcp.core.constraints import ConstraintChain

    r = ConstraintChain.parse(kind).evaluate(text, "F")
    return (not r.valid), f"{kind}.evaluate({text!r}) = {'accept' if r.valid else 'reject'}"


def ob_date_accept(ctx: Ctx, kind: str) -> Outcome:
    """unquoted(L(fragment)) ⊆ acceptance language of the constraint (written from datetime.fromisoformat)"""
    al = alphabet()
    try:
        frag = real_fragment(kind)
        lang = fragment_dfa(frag)
    except (ExtractionError, gbnf.GBNFError, A.OutsideReach) as e:
        return Outcome.undecided("dfa", f"{type(e).__name__}: {e}")
    acc = _calendar_regex() if kind == "DATE" else rf"{_calendar_regex()}(?:{_time_regex()})?"
    accept_q = A.dfa_regex('"' + acc + '"', 0, None, al)
    bad = lang - accept_q
    if bad.is_empty():
        return Outcome.ok("dfa", count=1, fragment=frag)
    wits = []
    known = LX._known_dfa(ctx, f"C13.R4.{kind}")
    new = bad - known
    for part, is_new in ((new, True), (bad & known, False)):
        cur = part
        for _ in range(3 if is_new else 1):
            w = cur.witness()
            if w is None:
                break
            s = al.decode(w)
            inner = s.strip('"')
            failed, text = replay_accept(kind, inner)
            wits.append(Witness(what=f"the {kind} rule derives {s} which the constraint rejects: {text}", input=s, key=s, replay={"runner": "props.C13:replay_accept", "args": {"kind": kind, "text": inner}}, confirmed=failed, verifier_output=f"fragment {frag!r}"))
            cur = cur - A.concat(al, [s])
    return Outcome.refuted("dfa", wits, count=1, discharged=0)


# ---- R5: conversion is total on the NUMBER derivations ---------------------------------------------------------------------


def ob_number_conversion(ctx: Ctx) -> Outcome:
    """The NUMBER token language is regular; int()/float() on it is total except for CPython's integer string
    conversion limit. The NUMBER rule has no length bound, so a derivation beyond the limit is refused."""
    limit = sys.get_int_max_str_digits() if hasattr(sys, "get_int_max_str_digits") else 0
    wits = []
    n = 0
    for s in ("1" * (limit + 1) if limit else "1" * 5000, "-" + "9" * (limit + 5) if limit else "9" * 5000, "9" * 400 + ".5", "0" * 50 + "." + "0" * 50, "1" * limit if limit else "1"):
        n += 1
        failed, text = replay_line(s, "TYPE[NUMBER]")
        if failed:
            key = "int-digit-limit" if "." not in s and len(s.lstrip("-")) > limit > 0 else f"number:{s[:20]}"
            wits.append(Witness(what=text[:300], input=f"{s[:12]}... ({len(s)} characters)", key=key, replay={"runner": "props.C13:replay_line", "args": {"value_text": s, "chain": "TYPE[NUMBER]"}}, confirmed=True))
    seen = set()
    uniq = [w for w in wits if not (w.key in seen or seen.add(w.key))]
    if uniq:
        return Outcome.refuted("real reader", uniq, count=n)
    return Outcome.ok("real reader", count=n)


# ---- F1: compile_chain's priority rule --------------------------------------------------------------------------------------


def ob_chain_selection(ctx: Ctx) -> Outcome:
    """compile_chain = `if not chain.constraints: return <const>`; then, in this order, one
    `for constraint in chain.constraints: if isinstance(constraint, K): return self.compile_constraint(constraint)`
    per kind CONST, ENUM, REGEX, TYPE, DATE|ISO8601; then `return self.compile_constraint(chain.constraints[0])`."""
    try:
        fn = extract.find_def(GB, "GBNFCompiler.compile_chain")
    except ExtractionError as e:
        return Outcome.undecided("ast-shape", str(e))
    body = [st for st in fn.body if not (isinstance(st, ast.Expr) and isinstance(st.value, ast.Constant))]
    got = []
    for st in body:
        if isinstance(st, ast.If) and ast.unparse(st.test) == "not chain.constraints" and isinstance(st.body[0], ast.Return):
            got.append("empty")
        elif isinstance(st, ast.For) and ast.unparse(st.iter) == "chain.constraints" and len(st.body) == 1 and isinstance(st.body[0], ast.If) and isinstance(st.body[0].body[0], ast.Return) and ast.unparse(st.body[0].body[0].value) == f"self.compile_constraint({ast.unparse(st.target)})" and not st.orelse and not st.body[0].orelse:
            t = st.body[0].test
            if isinstance(t, ast.Call) and ast.unparse(t.func) == "isinstance" and ast.unparse(t.args[0]) == ast.unparse(st.target):
                got.append(ast.unparse(t.args[1]))
            else:
                got.append("?" + ast.unparse(t)[:40])
        elif isinstance(st, ast.Return):
            got.append("return:" + ast.unparse(st.value))
        else:
            got.append("?" + ast.unparse(st)[:40])
    want = ["empty", "ConstConstraint", "EnumConstraint", "RegexConstraint", "TypeConstraint", "DateConstraint | Iso8601Constraint", "return:self.compile_constraint(chain.constraints[0])"]
    if got == want:
        return Outcome.ok("ast-shape", count=len(want), order=want)
    if any(g.startswith("?") for g in got):
        return Outcome.undecided("ast-shape", f"compile_chain has statements outside the selection shape: {got}")
    from props import C13_b
    from verif.common import shape_verdict

    return shape_verdict("ast-shape", [f"compile_chain's priority order is {got}, the property's rule is {want}"], C13_b.replay_selection, len(want), {"runner": "props.C13_b:replay_selection", "args": {}})


# ---- F2: CONST / ENUM literals are emit_value spellings ---------------------------------------------------------------------


def ob_literal_spelling(ctx: Ctx) -> Outcome:
    """_compile_const: '"' + _escape_literal(emit_value(const_value)) + '"' ; _compile_enum: the same per member.
    With C12.R1 (the GBNF literal denotes exactly that text), C04 (the reader returns the value the emitter spelled)
    and C08 (CONST accepts an equal value, ENUM accepts an exact member) every derivation is accepted."""
    try:
        fc = extract.find_def(GB, "GBNFCompiler._compile_const")
        fe = extract.find_def(GB, "GBNFCompiler._compile_enum")
    except ExtractionError as e:
        return Outcome.undecided("ast-shape", str(e))
    sc, se = ast.unparse(fc), ast.unparse(fe)
    wits = []
    from props import C13_b

    if not ("value = emit_value(constraint.const_value)" in sc and "escaped = self._escape_literal(value)" in sc and "return f'\"{escaped}\"'" in sc):
        failed, text = C13_b.replay_spelling()
        wits.append(Witness(what=f"_compile_const does not spell the value with emit_value + _escape_literal; {text}", key="const-spelling", input=sc[-200:], replay={"runner": "props.C13_b:replay_spelling", "args": {}}, confirmed=failed))
    if not ("escaped = [self._escape_literal(emit_value(v)) for v in constraint.allowed_values]" in se and "quoted = [f'\"{v}\"' for v in escaped]" in se and "' | '.join(quoted)" in se.split("quoted = ")[-1]):
        failed, text = C13_b.replay_spelling()
        wits.append(Witness(what=f"_compile_enum does not spell the members with emit_value + _escape_literal; {text}", key="enum-spelling", input=se[-200:], replay={"runner": "props.C13_b:replay_spelling", "args": {}}, confirmed=failed))
    if wits:
        from verif.common import shape_verdict

        return shape_verdict("ast-shape", [w.what.split(";")[0] for w in wits], C13_b.replay_spelling, 2, {"runner": "props.C13_b:replay_spelling", "args": {}})
    return Outcome.ok("ast-shape", count=2)


def obligations(ctx: Ctx):
    from functools import partial

    P = PROPERTY
    obs = [
        Ob(f"{P}.R0", "R", "tokenize control skeleton matches the step model", LX.FUNCS_LEX, LX.ob_skeleton),
        Ob(f"{P}.R1", "R", "every derivation of the TYPE[NUMBER] rule, after the field separator, is read as exactly one NUMBER token", FUNCS, ob_number),
        Ob(f"{P}.R2", "R", "every derivation of the TYPE[BOOLEAN] rule is read as exactly one BOOLEAN token", FUNCS, ob_boolean),
        Ob(f"{P}.R3.date", "R", "every derivation of the DATE rule is read as exactly one quoted STRING token", FUNCS, partial(ob_date_token, kind="DATE")),
        Ob(f"{P}.R3.iso", "R", "every derivation of the ISO8601 rule is read as exactly one quoted STRING token", FUNCS, partial(ob_date_token, kind="ISO8601")),
        Ob(f"{P}.R4.DATE", "R", "every text the DATE rule derives is a date the DATE constraint accepts", FUNCS, partial(ob_date_accept, kind="DATE")),
        Ob(f"{P}.R4.ISO8601", "R", "every text the ISO8601 rule derives is accepted by the ISO8601 constraint", FUNCS, partial(ob_date_accept, kind="ISO8601")),
        Ob(f"{P}.R5", "R", "number conversion is total on the NUMBER derivations (no length limit hit)", FUNCS, ob_number_conversion),
        Ob(f"{P}.F2", "F", "CONST / ENUM literals are the canonical emitter's spelling of the value", [f"{GB}:GBNFCompiler._compile_const", f"{GB}:GBNFCompiler._compile_enum"], ob_literal_spelling),
    ]
    # compile_chain under a contract with SYMBOLIC member kinds (any of the 13 constraint classes at every position):
    # the fragment returned is compile_constraint(<first CONST, else first ENUM, else REGEX, TYPE, DATE/ISO8601, else member 0>)
    from contracts import gbnf as GC
    from verif.pyvc.adapter import contract_ob as _cob

    for n in (1, 2, 3):
        obs.append(_cob(f"{P}.P2.n{n}", f"compile_chain on chains of {n} member(s) of arbitrary kinds: the most specific member's fragment is returned", (lambda n=n: GC.chain_selection_contract(n)), f"contracts.gbnf:chain_selection_contract({n})"))
    # the acceptance half of the CONST / ENUM / TYPE argument: the members' own contracts (shared with C08)
    from contracts import constraints as CC
    from verif.pyvc.adapter import contract_ob

    for i, c in enumerate(CC.MEMBER_CONTRACTS):
        kind = c.qualname.split(".")[0]
        if kind in ("ConstConstraint", "EnumConstraint", "TypeConstraint", "RequiredConstraint", "OptionalConstraint"):
            obs.append(contract_ob(f"{P}.P1.{kind}", f"{kind}.evaluate: an equal value / exact member / value of the type is accepted (contract shared with C08)", (lambda i=i: CC.MEMBER_CONTRACTS[i]), f"contracts.constraints:MEMBER_CONTRACTS[{i}]"))
    try:
        from props import C13_b

        obs.append(Ob(f"{P}.B1", "B", "derivations of compiled field rules (schema pools, all routes) through the real reader and the field's chain", FUNCS, C13_b.ob_b1, timeout=3000))
    except ImportError:
        pass
    from props import lexical as _LX

    obs += _LX.parse_scalar_obs(P)
    return obs
