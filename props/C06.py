"""C06 — results depend only on the input. Frame (effect) contracts over the real AST."""
from __future__ import annotations

from verif.common import Ctx, Ob, Outcome, Witness
from props import framesobs
from verif.frames.analysis import _deterministic_repr, package

PROPERTY = "C06"
LEVEL = "other"
LEVEL_TEXT = "static frame proof: every function reachable from the entry points has an effect set without ambient sources or persistent sinks beyond a per-function allowance; conservative syntactic over-approximation with call-graph closure; a cross-process battery is the bounded cross-check"
LEVEL_NOTE = "A-static (no dynamic attribute access / monkey-patching in the package: checked), A-cpython-det (str, list, insertion-ordered dict, re, sorted, hashlib, json, yaml.dump(sort_keys=False) are deterministic; open() without encoding decodes UTF-8 under the C/C.UTF-8/en_US.UTF-8 locales), third-party mcp/click/yaml not analysed, no threads created by the package"
TECHNIQUE = "effect/frame contracts (assigns, reads, effects) decided by conservative inference over the real AST with call-graph closure; two-process battery as bounded cross-check"
EXPLANATION = "C06: F obligations state per entry point that the closure of reachable functions writes no module state and reads no ambient source outside an allowance table; B runs a battery of real calls under different hash seeds, cwd, locale, process age and asyncio scheduling."
ASSUMPTIONS = [
    "A-static: no getattr/setattr/exec/eval/globals()/monkey-patching in src/octave_mcp (obligation C06.F0 checks the absence)",
    "A-cpython-det: CPython's str/list/dict(insertion-ordered)/re/sorted/hashlib/json and yaml.dump(sort_keys=False) are deterministic functions of their arguments",
    "open() without encoding= decodes UTF-8 under LANG in {C, C.UTF-8, en_US.UTF-8} (PEP 538/540); the bare open sites are listed in the evidence",
    "calls through receivers of unknown type are linked to every repository method of that name (over-approximation)",
    "threads: none created by the package; HTTP transport server threads are outside the anchors",
]
TRUSTED_BASE = ["CPython ast", "verif.frames analysis (conservative effect table for stdlib names, reviewed)"]

ENTRY = [
    "octave_mcp.core.lexer:tokenize",
    "octave_mcp.core.parser:parse",
    "octave_mcp.core.parser:parse_with_warnings",
    "octave_mcp.core.parser:parse_meta_only",
    "octave_mcp.core.emitter:emit",
    "octave_mcp.core.validator:Validator.validate",
    "octave_mcp.core.validator:validate",
    "octave_mcp.core.repair:repair",
    "octave_mcp.core.projector:project",
    "octave_mcp.core.sealer:seal_document",
    "octave_mcp.core.sealer:verify_seal",
    "octave_mcp.core.sealer:compute_seal",
    "octave_mcp.core.gbnf_compiler:GBNFCompiler.compile_schema",
    "octave_mcp.core.gbnf_compiler:compile_gbnf_from_meta",
    "octave_mcp.core.schema_extractor:extract_schema_from_document",
    "octave_mcp.core.routing:compute_value_hash",
    "octave_mcp.schemas.loader:load_schema_by_name",
    "octave_mcp.mcp.validate:ValidateTool.execute",
    "octave_mcp.mcp.write:WriteTool.execute",
    "octave_mcp.mcp.eject:EjectTool.execute",
    "octave_mcp.mcp.compile_grammar:CompileGrammarTool.execute",
    "octave_mcp.core.file_ops:atomic_write_octave",
]

# effect kind -> functions in which it is allowed (with the reason)
ALLOW = {
    "clock": {
        "octave_mcp.core.routing:RoutingLog.add": "the routing timestamp, which the property masks",
        "octave_mcp.core.hydrator:hydrate": "HYDRATED_AT manifest stamp of the vocabulary hydrator (not a C06 entry point result; reachable only through name-based over-approximation)",
    },
    "cwd": {
        "octave_mcp.schemas.loader:get_schema_search_paths": "project schema directories are searched relative to cwd: the named schema's text is part of the input",
        "octave_mcp.mcp.write:WriteTool._validate_path": "path validation of the target argument",
        "octave_mcp.mcp.validate:ValidateTool._validate_path": "path validation of the file argument",
        "octave_mcp.core.file_ops:validate_octave_path": "path validation of the target argument",
    },
    "random": {
        "octave_mcp.mcp.write:WriteTool.execute": "tempfile.mkstemp name; never returned",
        "octave_mcp.core.file_ops:atomic_write_octave": "tempfile.mkstemp name; never returned",
    },
    "locale": {
        "octave_mcp.schemas.loader:load_schema": "bare open(path): UTF-8 under the property's locale set (A-cpython-det)",
    },
}
FS_ALLOWED_PREFIXES = (
    "octave_mcp.schemas.loader:",
    "octave_mcp.schemas.repository:",
    "octave_mcp.core.hydrator:",
    "octave_mcp.core.file_ops:",
    "octave_mcp.mcp.write:WriteTool._validate_path",
    "octave_mcp.mcp.write:WriteTool.execute",
    "octave_mcp.mcp.validate:ValidateTool._validate_path",
    "octave_mcp.mcp.validate:ValidateTool.execute",
    "octave_mcp.mcp.compile_grammar:",
)
FORBIDDEN = ("env", "identity", "hash_order", "subprocess", "network", "concurrency", "global_write", "stdout")
GLOBAL_WRITE_WHITELIST = {"octave_mcp.core.ast_nodes:Absent.__new__": "write-once singleton; value independent of history"}
SERVICE_CLASSES = {
    "Parser", "Validator", "TargetRegistry", "TargetRouter", "Schema", "InheritanceResolver", "VocabularyRegistry", "BaseTool", "SchemaBuilder",
    "CompileGrammarTool", "EjectTool", "ValidateTool", "WriteTool", "MCPApp", "SchemaRepository", "GBNFCompiler",
}


def _site(k: str, e) -> str:
    return f"{k}@L{e.lineno}: {e.kind}: {e.detail}"


def replay_battery(seed: int = 0):
    from verif.bounded import determinism as d

    n, runs, diffs = d.compare_runs(
        [({"PYTHONHASHSEED": "1", "LANG": "C.UTF-8"}, False), ({"PYTHONHASHSEED": "2", "LANG": "C"}, False), ({"PYTHONHASHSEED": "random", "LC_ALL": "C"}, True)], seed
    )
    return (len(diffs) > 0), f"{n} calls x {runs} processes; differing: {sorted({x[0] for x in diffs})[:12]}"


def _confirm(sites: list[str]) -> tuple[bool, str]:
    try:
        failed, text = replay_battery()
    except Exception as e:  # noqa: BLE001
        return False, f"battery could not run: {e}"
    return failed, text


def ob_dynamic_absent(ctx: Ctx) -> Outcome:
    p = package()
    if p.dynamic_sites:
        return Outcome.refuted("frames", [Witness(what=f"dynamic attribute access / code execution at {m}:{ln}: {t}", key=f"{m}:{t}") for m, ln, t in p.dynamic_sites], count=1)
    return Outcome.ok("frames", count=1)


def _forbidden_ob(kind: str):
    def fn(ctx: Ctx) -> Outcome:
        p = package()
        bad: dict[str, str] = {}
        n = 0
        for ent in ENTRY:
            if ent not in p.funcs:
                return Outcome.undecided("frames", f"entry point {ent} not found in the working tree")
            n += 1
            for k, e in p.closure_effects(ent):
                if e.kind != kind:
                    continue
                if kind == "global_write" and k in GLOBAL_WRITE_WHITELIST:
                    continue
                bad.setdefault(_site(k, e), ent)
        if not bad:
            return Outcome.ok("frames", count=n)
        confirmed, text = _confirm(list(bad))
        wits = [
            Witness(
                what=f"effect `{kind}` in the closure of {ent}: {s}" + (f" — battery: {text}" if confirmed else ""),
                key=s.split("@")[0] + ":" + kind,
                input=s,
                replay={"runner": "props.C06:replay_battery", "args": {}},
                confirmed=confirmed,
                verifier_output=f"{s}\ncall path: {' -> '.join(p.call_path(ent, s.split('@')[0]))}\nbattery: {text}",
            )
            for s, ent in sorted(bad.items())
        ]
        return Outcome.refuted("frames", wits, count=n, discharged=0)

    return fn


def ob_allowance(ctx: Ctx) -> Outcome:
    """Ambient reads (clock, cwd, random, locale, fs) occur only in the functions of the allowance table."""
    p = package()
    bad: dict[str, str] = {}
    n = 0
    sites_locale = []
    for ent in ENTRY:
        n += 1
        for k, e in p.closure_effects(ent):
            if e.kind in ALLOW:
                if k not in ALLOW[e.kind]:
                    bad.setdefault(_site(k, e), ent)
                elif e.kind == "locale":
                    sites_locale.append(_site(k, e))
            elif e.kind in ("fs_read", "fs_write"):
                if not k.startswith(FS_ALLOWED_PREFIXES):
                    bad.setdefault(_site(k, e), ent)
    if not bad:
        return Outcome.ok("frames", count=n, bare_open_sites=sorted(set(sites_locale)))
    confirmed, text = _confirm(list(bad))
    wits = [
        Witness(
            what=f"ambient read outside the allowance table, reachable from {ent}: {s}",
            key=s.split("@")[0] + ":" + s.split(": ")[1],
            input=s,
            replay={"runner": "props.C06:replay_battery", "args": {}},
            confirmed=confirmed,
            verifier_output=f"{s}\ncall path: {' -> '.join(p.call_path(ent, s.split('@')[0]))}\nbattery: {text}",
        )
        for s, ent in sorted(bad.items())
    ]
    return Outcome.refuted("frames", wits, count=n, discharged=0)


def ob_repr(ctx: Ctx) -> Outcome:
    """Every repository class is a dataclass / Enum / exception / has its own __repr__, or is a
    reviewed service class that is never stored into a data object or formatted."""
    p = package()
    bad = []
    n = 0
    for q, c in sorted(p.classes.items()):
        n += 1
        if _deterministic_repr(p, c):
            continue
        subs = [s for s in p.subclasses(c) if s is not c]
        if subs and all(_deterministic_repr(p, s) for s in subs) and any("ABC" in b for b in c.bases):
            continue
        if c.name in SERVICE_CLASSES:
            continue
        bad.append(q)
    # service classes must not be formatted: `identity` effects anywhere in the package
    ident = []
    for k, f in p.funcs.items():
        for e in f.effects:
            if e.kind == "identity" and k not in ("octave_mcp.core.ast_nodes:Absent.__hash__",):
                ident.append(_site(k, e))
    wits = []
    if bad or ident:
        confirmed, text = _confirm(bad)
        for q in bad:
            wits.append(Witness(what=f"class {q} has no deterministic repr (default repr embeds a memory address) and is not a reviewed service class", key=q, input=q, replay={"runner": "props.C06:replay_battery", "args": {}}, confirmed=confirmed, verifier_output=text))
        for s in ident:
            wits.append(Witness(what=f"object identity reaches a string: {s}", key=s.split("@")[0] + ":identity", input=s, replay={"runner": "props.C06:replay_battery", "args": {}}, confirmed=confirmed, verifier_output=text))
        return Outcome.refuted("frames", wits, count=n, discharged=n - len(bad))
    return Outcome.ok("frames", count=n)


def ob_execute(ctx: Ctx) -> Outcome:
    """Tool execute bodies: no await / async for / async with (calls served by one event loop cannot
    interleave), no store to self.* (a long-lived tool object carries nothing between calls)."""
    p = package()
    wits = []
    n = 0
    for ent in [e for e in ENTRY if e.endswith(".execute")]:
        f = p.funcs[ent]
        n += 2
        for k in p.reachable(ent):
            g = p.funcs.get(k)
            if g and g.has_await:
                wits.append(Witness(what=f"{k} awaits: concurrently scheduled tool calls can interleave at that point", key=k + ":await", input=k))
        # inductive frame invariant "tool instances are stateless": no method of the tool class (or
        # its bases) contains a store or mutating call whose access path is rooted at self / cls, so
        # nothing but class constants is ever reachable from a tool object
        cls = f.cls
        for c in p.mro(cls) if cls else []:
            for m in c.methods.values():
                for s in m.stores:
                    if s.what.startswith(("self.", "cls.", "self[", f"{c.name}.")):
                        wits.append(Witness(what=f"{m.key}@L{s.lineno} stores through self ({s.what}): state carried between calls of a long-lived tool object", key=f"{m.key}:{s.what}", input=f"{m.key}@L{s.lineno}"))
    if wits:
        confirmed, text = _confirm([])
        for w in wits:
            w.confirmed = confirmed
            w.replay = {"runner": "props.C06:replay_battery", "args": {}}
            w.verifier_output = text
        return Outcome.refuted("frames", wits, count=n)
    return Outcome.ok("frames", count=n)


def ob_mutable_defaults(ctx: Ctx) -> Outcome:
    """No mutable default argument and no mutable class-level attribute that methods mutate."""
    import ast

    p = package()
    wits = []
    n = 0
    for k, f in p.funcs.items():
        n += 1
        for d in list(f.node.args.defaults) + [x for x in f.node.args.kw_defaults if x is not None]:
            if isinstance(d, (ast.List, ast.Dict, ast.Set)) or (isinstance(d, ast.Call) and ast.unparse(d.func) in ("list", "dict", "set")):
                wits.append(Witness(what=f"{k} has a mutable default argument {ast.unparse(d)}", key=k + ":mutable-default", input=k))
    if wits:
        return Outcome.refuted("frames", wits, count=n)
    return Outcome.ok("frames", count=n)


def ob_lemma(ctx: Ctx) -> Outcome:
    """L1: F0–F5 ∧ A-cpython-det ⇒ equal arguments and equal schema text give equal results apart from
    timestamps. Propositional skeleton discharged by z3 (each premise is one of the obligations above)."""
    import z3

    f0, f1, f2, f3, f4, f5, adet, det = z3.Bools("no_dynamic no_global_write ambient_only_allowed no_hash_order det_repr no_await_no_self A_cpython_det result_is_function_of_args")
    # a call's result is a function of its arguments iff nothing else can flow into it
    axioms = z3.And(
        z3.Implies(z3.And(f0, f1, f5), z3.Bool("no_history_flow")),
        z3.Implies(z3.And(f0, f2), z3.Bool("no_ambient_flow")),
        z3.Implies(z3.And(f3, f4, adet), z3.Bool("primitive_steps_deterministic")),
        z3.Implies(z3.And(z3.Bool("no_history_flow"), z3.Bool("no_ambient_flow"), z3.Bool("primitive_steps_deterministic")), det),
    )
    s = z3.Solver()
    s.add(axioms, f0, f1, f2, f3, f4, f5, adet, z3.Not(det))
    r = s.check()
    if r == z3.unsat:
        return Outcome.ok("z3", detail="lemma skeleton unsat")
    return Outcome.undecided("z3", f"lemma skeleton: {r}")


def ob_battery(ctx: Ctx) -> Outcome:
    from verif.bounded import determinism as d

    configs = [
        ({"PYTHONHASHSEED": "1", "LANG": "C.UTF-8"}, False),
        ({"PYTHONHASHSEED": "2", "LANG": "C", "LC_ALL": "C"}, False),
        ({"PYTHONHASHSEED": "random", "LC_ALL": "C.UTF-8"}, True),
    ]
    if ctx.thorough:
        configs += [({"PYTHONHASHSEED": str(ctx.seed + 3 + i), "LANG": "en_US.UTF-8"}, bool(i % 2)) for i in range(5)]
    n, runs, diffs = d.compare_runs(configs, ctx.seed)
    extra = dict(
        bound=f"{n} real calls (tokenize, parse, emit, seal, project, validator with routing, 4 MCP tools with flag combinations, sequential and asyncio.gather) in {runs} child processes: PYTHONHASHSEED fixed/random, LANG/LC_ALL C / C.UTF-8 (/ en_US.UTF-8), distinct cwd, fresh vs long-lived process after 40 shuffled calls",
        evaluations=n * runs,
        distinct_nontrivial=n,
        rule="a case is one call of the battery; distinct by call name; non-trivial: returns a non-empty result; results compared as JSON with timestamp fields masked",
        samples=[x[0] for x in diffs[:3]] or ["validator.holo.routing", "seq.validate.plain.META.{}", "seq.eject.zones.json.canonical"],
    )
    if diffs:
        wits = [Witness(what=f"result of {k} differs between {a} and {b}", key=k, input=k, replay={"runner": "props.C06:replay_battery", "args": {}}, confirmed=True) for k, a, b in diffs[:50]]
        return Outcome.refuted("two-process battery", wits, **extra)
    return Outcome.ok("two-process battery", **extra)


def obligations(ctx: Ctx):
    P = PROPERTY
    obs = [Ob(f"{P}.F0", "F", "no dynamic attribute access / exec / eval in the package (A-static)", ["octave_mcp/*"], ob_dynamic_absent)]
    for kind in FORBIDDEN:
        obs.append(Ob(f"{P}.F1.{kind}", "F", f"effect `{kind}` is absent from the closure of every entry point", ENTRY, _forbidden_ob(kind)))
    obs += [
        Ob(f"{P}.F2", "F", "ambient reads (clock, cwd, random, locale, fs) only inside the allowance table", ENTRY, ob_allowance),
        Ob(f"{P}.F4", "F", "every class that can reach a string has a deterministic repr", ["octave_mcp/* classes"], ob_repr),
        Ob(f"{P}.F5", "F", "execute bodies: no await, no store to self", [e for e in ENTRY if e.endswith(".execute")], ob_execute),
        Ob(f"{P}.F6", "F", "no mutable default arguments", ["octave_mcp/*"], ob_mutable_defaults),
        Ob(f"{P}.F7", "F", "every memoised function is keyed by arguments whose equality implies they are indistinguishable (no answer depends on which equal-but-distinct argument the process saw first)", ENTRY, framesobs.ob_memo_keys(ENTRY)),
        Ob(f"{P}.F8", "F", "no function in the closure hands out a mutable module-level object (a shared default policy, a cached schema) that a caller could edit for every later call - except the packaged schema table, whose consumers are proved not to mutate their parameters", ENTRY, framesobs.ob_no_global_escape(ENTRY, {"octave_mcp.schemas.loader:get_builtin_schema": "hands out the packaged SchemaDefinition objects; their consumers (the validator closure) are proved not to store through their parameters (C09.F1.assigns)", "octave_mcp.mcp.compile_grammar:CompileGrammarTool.execute": "the response envelope carries the module's USAGE_HINTS table (str -> str) by reference; execute is an entry point - nothing in the package receives its result, and the server serialises it"})),
        Ob(f"{P}.L1", "L", "frames ∧ A-cpython-det ⇒ results are a function of the arguments", [], ob_lemma),
        Ob(f"{P}.B1", "B", "battery of real calls compared across processes, seeds, cwd, locale, process age, asyncio scheduling", ENTRY, ob_battery, timeout=1200),
    ]
    return obs
