"""C17.B — bounded: write histories against a register model; a second actor at every call boundary."""
from __future__ import annotations

import asyncio
import hashlib
import itertools
import os
import random
import shutil
import tempfile

from verif.bounded import fsharness as F
from verif.bounded.sweep import sweep
from verif.common import Ctx, Outcome, Witness


def sha(t: str) -> str:
    return hashlib.sha256(t.encode("utf-8")).hexdigest()


def doc(fields: dict) -> str:
    return "===DOC===\n" + "".join(f"{k}::{v}\n" for k, v in fields.items()) + "===END===\n"


DOCS = [{"A": 1}, {"A": 2, "B": 3}, {"C": 7}]
LENIENT = "===DOC===\nA :: 5\nB::x->y\n===END===\n"
LENIENT_CANON = "===DOC===\nA::5\nB::x→y\n===END===\n"
OPS = []
for h in ("none", "current", "stale", "future"):
    OPS += [("content", 0, h), ("content", 1, h), ("changes", None, h), ("normalize", None, h)]
OPS += [("dry_content", 2, "none"), ("dry_content", 2, "stale"), ("dry_normalize", None, "none"), ("ext_write", 2, None), ("ext_lenient", None, None), ("ext_delete", None, None), ("bad_content", None, "none"), ("both_params", None, "none")]


def _hash_for(kind: str, current: str | None, future: str) -> str | None:
    if kind == "none":
        return None
    if kind == "current":
        return sha(current) if current is not None else sha("")
    if kind == "stale":
        return "0" * 64
    return sha(future)


def run_history(hist: list[tuple]) -> str | None:
    """execute the history on the real tool; compare with the register model after every step"""
    from octave_mcp.mcp.write import WriteTool

    root = tempfile.mkdtemp(prefix="vf-c17-")
    t = os.path.join(root, "f.oct.md")
    model: str | None = None  # register: file text or None
    future = doc({"Z": 99})
    try:
        for i, (op, arg, hk) in enumerate(hist):
            before_listing = sorted(os.listdir(root))
            bh = _hash_for(hk, model, future) if hk else None
            expect_change = None  # None: no change expected
            exp_status = None
            call = None
            if op == "content":
                new = doc(DOCS[arg])
                call = dict(content=new)
                if bh is not None and model is not None and sha(model) != bh:
                    exp_status = "E_HASH"
                elif bh is not None and model is None:
                    exp_status = "absent+base_hash"  # strict CAS: nothing hashes to base_hash
                    expect_change = new
                else:
                    exp_status, expect_change = "success", new
            elif op == "changes":
                call = dict(changes={"N": i})
                if model is None:
                    exp_status = "error"
                elif bh is not None and sha(model) != bh:
                    exp_status = "E_HASH"
                else:
                    exp_status = "success"
                    fields = _parse_simple(LENIENT_CANON if model == LENIENT else model)
                    if fields is None:
                        exp_status = "success-any"
                    else:
                        fields["N"] = i
                        expect_change = _render_like(model, fields)
            elif op == "normalize":
                call = dict()
                if model is None:
                    exp_status = "error"
                elif bh is not None and sha(model) != bh:
                    exp_status = "E_HASH"
                else:
                    exp_status = "success"
                    expect_change = LENIENT_CANON if model == LENIENT else model
            elif op in ("dry_content", "dry_normalize"):
                call = dict(content=doc(DOCS[arg]), corrections_only=True) if op == "dry_content" else dict(corrections_only=True)
                exp_status = "dry"
            elif op == "bad_content":
                call = dict(content="===BROKEN\nA::[1,\n", lenient=False)
                exp_status = "error"
            elif op == "both_params":
                call = dict(content=doc(DOCS[0]), changes={"A": 1})
                exp_status = "error"
            elif op == "ext_write":
                model = doc(DOCS[arg])
                with open(t, "w", encoding="utf-8") as f:
                    f.write(model)
                continue
            elif op == "ext_lenient":
                model = LENIENT
                with open(t, "w", encoding="utf-8") as f:
                    f.write(model)
                continue
            elif op == "ext_delete":
                model = None
                if os.path.exists(t):
                    os.unlink(t)
                continue
            if bh is not None:
                call["base_hash"] = bh
            r = asyncio.run(WriteTool().execute(target_path=t, **call))
            now = open(t, encoding="utf-8", newline="").read() if os.path.exists(t) else None
            listing = sorted(os.listdir(root))
            st = r.get("status")
            codes = [e.get("code") for e in r.get("errors", [])]
            where = f"step {i} {op}({arg},{hk}) of {hist}"
            if exp_status == "dry":
                if now != model or listing != before_listing:
                    return f"dry|corrections_only call changed the file system: {where}"
                continue
            if st == "error":
                if now != model or listing != before_listing:
                    return f"error-changed|status=error but the file system changed ({model!r} -> {now!r}, entries {before_listing} -> {listing}): {where}"
                if exp_status == "success":
                    return f"unexpected-error|{codes}: {where}"
                if exp_status == "E_HASH" and "E_HASH" not in codes:
                    return f"wrong-code|expected E_HASH, got {codes}: {where}"
                continue
            # success
            if exp_status in ("E_HASH", "error"):
                return f"cas-bypassed|a call with base_hash that does not match (or an invalid call) succeeded: file {model!r} -> {now!r}: {where}"
            if exp_status == "absent+base_hash":
                return f"cas-absent|base_hash given, target absent, yet the file was created: {where}"
            if expect_change is not None and now != expect_change:
                return f"content|after a successful {op} the file holds {now!r}, the model {expect_change!r}: {where}"
            if r.get("canonical_hash") != sha(now or ""):
                return f"hash|canonical_hash does not match the file: {where}"
            if [x for x in listing if x != "f.oct.md"]:
                return f"leftover|entries beside the target after success: {listing}: {where}"
            model = now
    finally:
        shutil.rmtree(root, ignore_errors=True)
    return None


def _parse_simple(text: str):
    lines = text.split("\n")
    if lines[0] != "===DOC===" or lines[-2:] != ["===END===", ""]:
        return None
    out = {}
    for ln in lines[1:-2]:
        if "::" not in ln or ln.startswith(" "):
            return None
        k, v = ln.split("::", 1)
        out[k] = v
    return out


def _render_like(model: str, fields: dict) -> str:
    return "===DOC===\n" + "".join(f"{k}::{v}\n" for k, v in fields.items()) + "===END===\n"


_HISTS: list = []


def _one(idx: int):
    h = _HISTS[idx]
    try:
        p = run_history(list(h))
    except Exception as e:  # noqa: BLE001
        return True, f"exception|{type(e).__name__}: {str(e)[:150]} in history {h}", True, idx
    if p:
        return True, p, True, idx
    return False, "", any(o[0] in ("content", "changes", "normalize") for o in h), idx


def histories(seed: int, thorough: bool):
    out = [tuple(h) for L in (1, 2) for h in itertools.product(OPS, repeat=L)]
    rng = random.Random(seed)
    for L, n in ((3, 3000 if thorough else 600), (4, 3000 if thorough else 500), (5, 6000 if thorough else 900)):
        for _ in range(n):
            out.append(tuple(rng.choice(OPS) for _ in range(L)))
    return out


def replay(seed: int, thorough: bool, idx: int):
    global _HISTS
    _HISTS = histories(seed, thorough)
    failed, text, _, _ = _one(idx)
    return failed, text or "the history matches the register model"


def ob_histories(ctx: Ctx) -> Outcome:
    global _HISTS
    _HISTS = histories(ctx.seed, ctx.thorough)
    n = len(_HISTS)
    res = sweep(_one, range(n), ctx.cores, chunk=40)
    wits, seen = [], set()
    for idx, text in res["failures"][:5000]:
        key = text.split("|", 1)[0]
        if key in seen:
            continue
        seen.add(key)
        wits.append(Witness(what=text[:900], input={"history": repr(_HISTS[idx])}, key=key, replay={"runner": "props.C17_b:replay", "args": {"seed": ctx.seed, "thorough": ctx.thorough, "idx": idx}}, confirmed=True))
    extra = dict(
        bound=f"{n} histories on one path: all of length 1-2 over {len(OPS)} operations (content write of two documents, changes write, normalize, each with base_hash none / current / stale / hash of a future content; corrections_only content and normalize; external write, external lenient write, external delete; invalid content; content+changes), seeded samples of length 3, 4, 5; after every step: status, error code, file bytes, directory listing against a register model",
        evaluations=res["evaluations"], distinct_nontrivial=res["nontrivial"], rule="a case is one history; non-trivial: contains at least one writing call", samples=[repr(_HISTS[i]) for i in (0, n // 2, n - 1)], failing_histories=len(res["failures"]),
    )
    if wits:
        return Outcome.refuted("real WriteTool vs register model", wits, **extra)
    return Outcome.ok("real WriteTool vs register model", **extra)


ob_histories.wants_all_cores = True


# ---- a second actor at every call boundary ------------------------------------------------------------------------------

OTHER_TEXT = "===DOC===\nW::other\n===END===\n"
KEEP_TEXT = "===DOC===\nA::new\nC::4\n===END===\n"  # same length as fsharness.OLD; padded/cut to the file's length otherwise


def second_actor_cases():
    """(scenario of the writer under test, description of the second actor)"""
    out = []
    for name in ("wt_overwrite_hashok", "wt_changes_hashok", "wt_normalize_hashok", "at_overwrite_hashok", "wt_overwrite_nohash", "wt_new_nohash"):
        scn = next(s for s in F.scenarios() if s["name"] == name)
        bh = scn["call"].get("base_hash")
        others = [{"kind": "external", "text": OTHER_TEXT}, {"kind": "external_keepstat", "text": KEEP_TEXT}, {"kind": "write_tool", "call": {"content": OTHER_TEXT, **({"base_hash": bh} if bh else {})}}]
        if scn["pre"]:
            others.append({"kind": "delete"})
        for o in others:
            out.append((scn, o))
    return out


def eval_second_actor(scn: dict, other: dict, k: int, tr_calls: list, r: dict) -> str | None:
    tgt = scn["target"]
    env = r.get("envelope") or {}
    st = env.get("status")
    fin = r["after"].get(tgt)
    fin_b = fin[2] if fin else None
    oth = r.get("other") or {}
    at = f"{k}:{tr_calls[k][1]}" if k < len(tr_calls) else str(k)
    extra_entries = [e for e in r["after"] if e != tgt and e not in r["before"]]
    holds_hash = bool(scn["call"].get("base_hash"))
    other_changed = other["kind"] in ("external", "external_keepstat", "delete") or oth.get("status") == "success"
    if r.get("exception"):
        return None  # the call raised: not a C17 clause (C20)
    if st == "error" and extra_entries:
        return f"leftover|status=error but new entries {extra_entries} after a second actor ({other['kind']}) acted before call #{at}"
    if st == "success" and holds_hash and other["kind"] == "delete":
        return f"cas-absent|the target was deleted by a second actor before call #{at}; the writer, holding base_hash of the deleted content, created the file anew"
    if st == "success" and holds_hash and other_changed:
        # the writer held base_hash of the ORIGINAL content; the second actor changed the file before the install
        # if the second actor acted before the writer's own final re-read, the writer must fail
        if other["kind"] == "write_tool" and oth.get("status") == "success":
            return f"both-succeed|two writers holding the same base_hash both succeeded (second writer ran before call #{at} of the first); final file is the first writer's"
        return f"lost-update|the file was changed by a second actor ({other['kind']}) before call #{at}, the writer's base_hash no longer matched at install time, yet it succeeded"
    return None


def _sa_job(job):
    ci, k = job
    scn, other = _SA[ci]
    r = F.run_act(scn, k, other)
    if r.get("harness_error"):
        return ci, k, "harness|" + str(r["harness_error"])[:200]
    return ci, k, eval_second_actor(scn, other, k, _SA_TR[ci], r)


_SA: list = []
_SA_TR: list = []


def replay_second(ci: int, k: int):
    global _SA, _SA_TR
    _SA = second_actor_cases()
    scn, other = _SA[ci]
    tr = F.run_trace(scn)
    _SA_TR = [tr["calls"] if i == ci else [] for i in range(len(_SA))]
    _, _, p = _sa_job((ci, k))
    return bool(p), p or "no violation at this interleaving point"


def ob_second_actor(ctx: Ctx) -> Outcome:
    import multiprocessing as mp

    global _SA, _SA_TR
    _SA = second_actor_cases()
    _SA_TR = []
    jobs = []
    for ci, (scn, other) in enumerate(_SA):
        F._resolve(scn, "/nonexistent")
        tr = F.run_trace(scn)
        _SA_TR.append(tr["calls"])
        jobs += [(ci, k) for k in range(len(tr["calls"]))]
    with mp.get_context("fork").Pool(min(ctx.cores, 16)) as pool:
        res = list(pool.imap_unordered(_sa_job, jobs, chunksize=4))
    wits, seen = [], set()
    crashed = [p for _, _, p in res if p and p.startswith("harness|")]
    if crashed:
        return Outcome("crashed", "fault harness", [], crashed[0], {})
    for ci, k, p in sorted(res):
        if not p:
            continue
        scn, other = _SA[ci]
        window = _window(_SA_TR[ci], k)
        key = f"{p.split('|', 1)[0]}|{window}"
        if key in seen:
            continue
        seen.add(key)
        wits.append(Witness(what=f"{scn['name']} + {other['kind']}: {p.split('|', 1)[1]}", input={"scenario": scn["name"], "other": other["kind"], "k": k}, key=key, replay={"runner": "props.C17_b:replay_second", "args": {"ci": ci, "k": k}}, confirmed=True))
    extra = dict(bound=f"{len(_SA)} (writer scenario, second actor) pairs x every counted file-system call of the writer ({len(jobs)} interleaving points): the second actor (external write, external write that keeps length and timestamps, external delete, or a complete second octave_write holding the same base_hash) performs its whole operation right before that call", evaluations=len(jobs), distinct_nontrivial=len(jobs), rule="a case is one (scenario, actor, call index)")
    if wits:
        return Outcome.refuted("real write paths with a second actor", wits, **extra)
    return Outcome.ok("real write paths with a second actor", **extra)


def _window(calls: list, k: int) -> str:
    """where k lies relative to the point at which the writer's temp file is complete (its last close of the
    *.tmp file before os.replace). Defined from the temp-file steps, not from the writer's own re-read, so that a
    writer that skips or moves its final comparison does not move the window with it."""
    names = [c[1] for c in calls]
    try:
        rep = len(names) - 1 - names[::-1].index("os.replace")
    except ValueError:
        return "no-replace"
    closes = [i for i, c in enumerate(calls[:rep]) if c[1] == "file.close" and str(c[2]).endswith(".tmp")]
    done = closes[-1] if closes else rep - 1
    if k <= done:
        return "before-temp-complete"
    return "between-final-reread-and-replace"


ob_second_actor.wants_all_cores = True
