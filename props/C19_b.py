"""C19.B — bounded: path strings over generated directory trees with secrets outside a sandbox; name / digest / URI sweeps."""
from __future__ import annotations

import asyncio
import hashlib
import itertools
import os
import shutil
import sys
import tempfile

from verif.bounded.sweep import sweep
from verif.common import Ctx, Outcome, Witness

DOC = "===DOC===\nA::1\n===END===\n"
SECRET = "===SECRET===\nTOKEN::hunter2\n===END===\n"
ALLOWED = (".oct.md", ".octave", ".md")
SYMLINKS = {"dirlink", "inlink", "danglingdir", "filelink.oct.md", "dangling.oct.md", "looplink", "~"}
DIR_SEGS = ["sub", "new", ".", "..", "dirlink", "inlink", "danglingdir", "", "~"]  # "~": a directory link literally named ~ (a validator that expands the user's home checks another path than the one that is opened)
FILE_SEGS = ["ok.oct.md", "x.oct.md", "x.octave", "x.md", "x.txt", "x.OCT.MD", "x.oct.md.txt", "x.tar.oct.md", "noext", "filelink.oct.md", "dangling.oct.md", "looplink", "a\x00b.oct.md", "L" * 300 + ".oct.md", "x.oct.md/", ".oct.md", "..", "x.md "]


def build_tree(root: str) -> None:
    sb, out = os.path.join(root, "sandbox"), os.path.join(root, "outside")
    os.makedirs(os.path.join(sb, "sub"))
    os.makedirs(out)
    for p, t in ((os.path.join(sb, "ok.oct.md"), DOC), (os.path.join(sb, "sub", "ok.oct.md"), DOC), (os.path.join(out, "secret.oct.md"), SECRET), (os.path.join(out, "ok.oct.md"), SECRET), (os.path.join(out, "x.oct.md"), SECRET), (os.path.join(out, "secret.txt"), "hunter2\n")):
        with open(p, "w", encoding="utf-8") as f:
            f.write(t)
    os.symlink("../outside", os.path.join(sb, "dirlink"))
    os.symlink("sub", os.path.join(sb, "inlink"))
    os.symlink("nowheredir", os.path.join(sb, "danglingdir"))
    os.symlink("../outside/secret.oct.md", os.path.join(sb, "filelink.oct.md"))
    os.symlink("nowhere.oct.md", os.path.join(sb, "dangling.oct.md"))
    os.symlink("looplink", os.path.join(sb, "looplink"))
    os.symlink("../../outside", os.path.join(sb, "sub", "dirlink"))
    os.symlink("../outside", os.path.join(sb, "~"))


def snapshot(root: str) -> dict:
    snap = {}
    for dp, dirs, files in os.walk(root):
        for n in dirs + files:
            p = os.path.join(dp, n)
            rel = os.path.relpath(p, root)
            if os.path.islink(p):
                snap[rel] = ("l", os.readlink(p))
            elif os.path.isdir(p):
                snap[rel] = ("d",)
            else:
                with open(p, "rb") as f:
                    snap[rel] = ("f", f.read())
    return snap


def must_refuse(segs: tuple[str, ...], sb: str | None = None) -> str | None:
    """reason the property demands refusal, from the path's own spelling and the (pristine) tree: a '..' component,
    a component that IS a symbolic link in the tree (lstat by this oracle), or a last component without an allowed extension"""
    if any(s.rstrip("/") == ".." for s in segs):
        return "dotdot"
    cur = sb
    for s in segs:
        s2 = s.rstrip("/")
        if s2 in ("", "."):
            continue
        if "\x00" in s2 or len(s2) > 255:
            break
        if cur is not None:
            cur = os.path.join(cur, s2)
            if os.path.islink(cur):
                return "symlink"
        elif s2 in SYMLINKS:
            return "symlink"
    last = segs[-1].rstrip("/")
    if not last.endswith(ALLOWED):
        return "extension"
    return None


def path_cases(depth: int):
    for d in range(0, depth + 1):
        for dirs in itertools.product(DIR_SEGS, repeat=d):
            for f in FILE_SEGS:
                segs = tuple(dirs) + (f,)
                for absolute in (True, False):
                    yield segs, absolute


_EVENTS: list = []
_HOOKED = False


def _audit(event: str, args) -> None:
    if event == "open" and _EVENTS is not None:
        try:
            _EVENTS.append((str(args[0]), args[1] if len(args) > 1 else None))
        except Exception:  # noqa: BLE001
            pass


def _install_hook() -> None:
    global _HOOKED
    if not _HOOKED:
        sys.addaudithook(_audit)
        _HOOKED = True


_CASES: list = []
_TREE: dict = {}


def _tree() -> str:
    """one tree per worker process, rebuilt when a call changed it"""
    if "root" not in _TREE or not os.path.isdir(_TREE["root"]):
        root = os.path.realpath(tempfile.mkdtemp(prefix="vf-c19-"))
        build_tree(root)
        _TREE["root"] = root
        _TREE["snap"] = snapshot(root)
    return _TREE["root"]


def _reset_tree() -> None:
    if "root" in _TREE:
        shutil.rmtree(_TREE["root"], ignore_errors=True)
        _TREE.clear()


def _one(idx: int):
    from octave_mcp.core.file_ops import atomic_write_octave, validate_octave_path
    from octave_mcp.mcp.validate import ValidateTool
    from octave_mcp.mcp.write import WriteTool

    _install_hook()
    segs, absolute = _CASES[idx]
    reason = must_refuse(segs, os.path.join(_tree(), "sandbox"))
    fails = []
    for tool in ("write", "validate", "atomic", "write_changes", "write_dry", "write_normalize_dry"):
        root = _tree()
        sb = os.path.join(root, "sandbox")
        rel = "/".join(segs)
        # never let an empty first segment turn the string into a path under the real root directory
        path = (sb + "/" + rel) if absolute else ("./" + rel)
        assert path.startswith((sb + "/", "./"))
        os.chdir(sb)
        before = _TREE["snap"]
        del _EVENTS[:]
        try:
            if tool == "write":
                r = asyncio.run(WriteTool().execute(target_path=path, content=DOC))
            elif tool == "write_changes":
                r = asyncio.run(WriteTool().execute(target_path=path, changes={"A": 2}))
            elif tool == "write_dry":  # a preview reads the target too: the same refusal applies
                r = asyncio.run(WriteTool().execute(target_path=path, content=DOC, corrections_only=True))
            elif tool == "write_normalize_dry":
                r = asyncio.run(WriteTool().execute(target_path=path, corrections_only=True))
            elif tool == "validate":
                r = asyncio.run(ValidateTool().execute(file_path=path, schema="META"))
            else:
                r = atomic_write_octave(path, DOC)
        except Exception as e:  # noqa: BLE001
            r = {"status": "raised", "exception": f"{type(e).__name__}: {str(e)[:80]}"}
        opened = [p for p, _ in _EVENTS if isinstance(p, str) and (os.path.realpath(os.path.join(sb, p)) if not os.path.isabs(p) else p).startswith(root) and "\x00" not in p]
        os.chdir("/")
        after = snapshot(root)
        changed = sorted(k for k in set(before) | set(after) if before.get(k) != after.get(k))
        outside_changed = [k for k in changed if not k.startswith("sandbox")]
        st = r.get("status") if isinstance(r, dict) else None
        where = f"{tool}({'abs' if absolute else 'rel'} {rel[:80]!r})"
        if outside_changed:
            fails.append(f"outside|{where}: entries outside the sandbox changed: {outside_changed}")
        opened_outside = [p for p in opened if os.path.realpath(p if os.path.isabs(p) else os.path.join(sb, p)).startswith(os.path.join(root, "outside"))]
        if reason is not None:
            if st == "success" or (tool == "validate" and st != "error" and r.get("validation_status") not in (None,) and not r.get("errors")):
                fails.append(f"accepted-{reason}|{where}: must be refused ({reason}) but returned status {st}")
            if changed:
                fails.append(f"changed-{reason}|{where}: must be refused ({reason}) but the tree changed: {changed[:3]}")
            if opened:
                fails.append(f"opened-{reason}|{where}: must be refused ({reason}) before any file is opened, but opened {[os.path.relpath(p, root) if os.path.isabs(p) else p for p in opened[:3]]}")
        elif opened_outside:
            fails.append(f"outside-read|{where}: a file outside the sandbox was opened: {opened_outside[:2]}")
        if st == "raised":
            pass  # tools raising is C20's clause
        if changed:
            _reset_tree()
    if fails:
        return True, fails[0], True, idx
    return False, "", reason is not None, idx


def replay_path(depth: int, idx: int):
    global _CASES
    _CASES = list(path_cases(depth))
    failed, text, _, _ = _one(idx)
    _reset_tree()
    return failed, text or "refused / contained as required"


def ob_paths(ctx: Ctx) -> Outcome:
    global _CASES
    depth = 3 if ctx.thorough else 2
    _CASES = list(path_cases(depth))
    n = len(_CASES)
    res = sweep(_one, range(n), ctx.cores, chunk=60)
    wits, seen = [], set()
    for idx, text in res["failures"][:20000]:
        key = text.split("|", 1)[0] + "|" + text.split("|", 1)[1].split("(", 1)[0]
        if key in seen:
            continue
        seen.add(key)
        wits.append(Witness(what=text.split("|", 1)[1][:700], input={"segments": list(_CASES[idx][0]), "absolute": _CASES[idx][1]}, key=key, replay={"runner": "props.C19_b:replay_path", "args": {"depth": depth, "idx": idx}}, confirmed=True))
    extra = dict(
        bound=f"{n} path strings: up to {depth} directory segments from {DIR_SEGS} + a last segment from {len(FILE_SEGS)} kinds (allowed / disallowed / compound / upper-case extensions, symlink to file, dangling symlink, self-loop symlink, NUL, 300-character name, trailing slash, hidden, '..', trailing space), absolute and relative to the sandbox; tree: sandbox with files, a subdirectory, symlinks to a directory outside / inside / nowhere, to a file outside, dangling, looping; outside directory with secrets; calls: octave_write(content), octave_write(changes), octave_write(content / normalize, corrections_only=True), octave_validate(file_path), atomic_write_octave; observed: snapshot of the whole tree before/after, every path passed to open() (audit hook)",
        evaluations=res["evaluations"] * 6, distinct_nontrivial=res["nontrivial"], rule="a case is one path string through four calls; non-trivial: the property demands refusal", samples=[repr(_CASES[i]) for i in (0, n // 2, n - 1)], failing_paths=len(res["failures"]),
    )
    if wits:
        return Outcome.refuted("real tools on generated trees", wits, **extra)
    return Outcome.ok("real tools on generated trees", **extra)


ob_paths.wants_all_cores = True


# ---- replays used by the F/R obligations --------------------------------------------------------------------------------


def _with_tree(fn):
    root = os.path.realpath(tempfile.mkdtemp(prefix="vf-c19-"))
    try:
        build_tree(root)
        return fn(root)
    finally:
        os.chdir("/")
        shutil.rmtree(root, ignore_errors=True)


def replay_validator_probe(which: str = ""):
    def run(root):
        from octave_mcp.core.file_ops import validate_octave_path
        from octave_mcp.mcp.validate import ValidateTool
        from octave_mcp.mcp.write import WriteTool

        sb = os.path.join(root, "sandbox")
        vs = {"WriteTool._validate_path": WriteTool()._validate_path, "ValidateTool._validate_path": ValidateTool()._validate_path, "validate_octave_path": validate_octave_path}
        bad = []
        for name, v in vs.items():
            if which and which != name:
                continue
            for rel in ("../outside/secret.oct.md", "dirlink/x.oct.md", "filelink.oct.md", "dangling.oct.md", "danglingdir/x.oct.md", "inlink/ok.oct.md", "x.txt", "sub/../ok.oct.md", "sub/dirlink/x.oct.md", "looplink", "~/x.oct.md"):
                ok, _ = v(os.path.join(sb, rel))
                if ok:
                    bad.append(f"{name} accepts {rel}")
            ok, _ = v(os.path.join(sb, "sub", "new.oct.md"))
            if not ok:
                bad.append(f"{name} refuses a plain path")
            if name.startswith("WriteTool"):
                # whatever arguments the validator has grown: through the tool, in preview mode as well
                import asyncio as _aio

                for rel in ("dirlink/x.oct.md", "filelink.oct.md", "sub/dirlink/x.oct.md"):
                    for kw in ({"content": DOC, "corrections_only": True}, {"corrections_only": True}, {"changes": {"A": 2}, "corrections_only": True}):
                        r = _aio.run(WriteTool().execute(target_path=os.path.join(sb, rel), **kw))
                        if r.get("status") == "success" or not any(e.get("code") == "E_PATH" for e in r.get("errors", [])):
                            bad.append(f"octave_write({', '.join(kw)}) on {rel}: status {r.get('status')} {[e.get('code') for e in r.get('errors', [])]} (must be E_PATH)")
            # the same paths given RELATIVE to a working directory inside the sandbox (and one level down)
            here = os.getcwd()
            try:
                for cwd, prefix in ((sb, ""), (os.path.join(sb, "sub"), "../")):
                    os.chdir(cwd)
                    for rel in ("dirlink/x.oct.md", "filelink.oct.md", "dangling.oct.md", "danglingdir/x.oct.md", "inlink/ok.oct.md", "sub/dirlink/x.oct.md", "~/x.oct.md", "~/new.oct.md"):
                        if prefix:
                            continue  # '..' is refused outright; only the sandbox-rooted spelling is meaningful there
                        ok, _ = v(rel)
                        if ok:
                            bad.append(f"{name} accepts the relative path {rel} (cwd = sandbox)")
                    if cwd.endswith("sub"):
                        ok, _ = v("dirlink/x.oct.md")
                        if ok:
                            bad.append(f"{name} accepts the relative path dirlink/x.oct.md (cwd = sandbox/sub)")
            finally:
                os.chdir(here)
        return bool(bad), "; ".join(bad[:3]) or "probe: the validators refuse '..', every symlink kind (absolute and relative spelling) and bad extensions"

    return _with_tree(run)


def replay_private_exemption(which: str = ""):
    """the exemption needs a symlink at depth <= 2 whose target is under /private/: cannot be built without root; shown on the predicate itself"""
    return False, "not reproducible without write access to / (needs e.g. /x -> /private/...); recorded from the source"


def replay_schema_name(name: str):
    from octave_mcp.schemas.loader import SCHEMA_NAME_PATTERN

    return bool(SCHEMA_NAME_PATTERN.match(name)) and any(c in name for c in "/\\.\x00"), f"SCHEMA_NAME_PATTERN.match({name!r}) = {bool(SCHEMA_NAME_PATTERN.match(name))}"


def replay_frozen(ref: str):
    from octave_mcp.core.hydrator import VocabularyError, resolve_hermetic_standard

    d = tempfile.mkdtemp(prefix="vf-c19-")
    try:
        try:
            p = resolve_hermetic_standard(ref, cache_dir=__import__("pathlib").Path(d))
            return True, f"resolved to {p}"
        except VocabularyError as e:
            return False, f"refused: {str(e)[:80]}"
    finally:
        shutil.rmtree(d, ignore_errors=True)


def replay_frozen_probe():
    import pathlib

    from octave_mcp.core.hydrator import VocabularyError, resolve_hermetic_standard

    d = tempfile.mkdtemp(prefix="vf-c19-")
    bad = []
    try:
        good = b"vocab\n"
        dg = hashlib.sha256(good).hexdigest()
        with open(os.path.join(d, dg[:16] + ".oct.md"), "wb") as f:
            f.write(good)
        other = hashlib.sha256(b"other").hexdigest()
        with open(os.path.join(d, other[:16] + ".oct.md"), "wb") as f:
            f.write(b"tampered")
        with open(os.path.join(d, "..", "evil.oct.md") if False else os.path.join(d, "evil.oct.md"), "wb") as f:
            f.write(b"x")
        for ref, expect_ok in ((f"frozen@sha256:{dg}", True), (f"frozen@sha256:{dg.upper()}", True), (f"frozen@sha256:{other}", False), (f"frozen@sha256:{dg[:16]}", False), ("frozen@sha256:../evil", False), (f"frozen@sha256:{dg[:16]}{'0' * 48}", False), (f"frozen@sha256:{dg}\n", False), (f"frozen@sha256:{dg}/../evil", False)):
            try:
                p = resolve_hermetic_standard(ref, cache_dir=pathlib.Path(d))
                got = hashlib.sha256(open(p, "rb").read()).hexdigest()
                if not expect_ok or got != ref.split(":", 1)[1].strip().lower()[:64]:
                    bad.append(f"{ref[:40]!r} resolved to {os.path.basename(str(p))} whose bytes hash to {got[:12]}")
            except VocabularyError:
                if expect_ok:
                    bad.append(f"{ref[:40]!r} refused although the cache file matches")
    finally:
        shutil.rmtree(d, ignore_errors=True)
    return bool(bad), "; ".join(bad[:2]) or "probe: only a cache file whose bytes hash to the digest is returned"


def replay_source_uri_probe():
    def run(root):
        import pathlib

        from octave_mcp.core.hydrator import SourceUriSecurityError, validate_source_uri

        base = pathlib.Path(root) / "sandbox"
        bad = []
        for uri in ("../outside/secret.oct.md", "dirlink/secret.oct.md", "filelink.oct.md", "/etc/passwd", "sub/../../outside/secret.txt", "sub/dirlink/secret.txt", "C:\\x", "a\x00b"):
            try:
                p = validate_source_uri(uri, base)
                if not str(p).startswith(str(base.resolve()) + os.sep):
                    bad.append(f"{uri!r} resolves to {p}")
            except SourceUriSecurityError:
                pass
            except Exception as e:  # noqa: BLE001
                pass
        for uri in ("sub/ok.oct.md", "sub/../ok.oct.md", "inlink/ok.oct.md"):
            try:
                validate_source_uri(uri, base)
            except SourceUriSecurityError as e:
                bad.append(f"{uri!r} refused although it stays inside the base: {e}")
        return bool(bad), "; ".join(bad[:2]) or "probe: source URIs never resolve outside the base"

    return _with_tree(run)


# ---- B2: names, digests, URIs ------------------------------------------------------------------------------------------


def ob_names(ctx: Ctx) -> Outcome:
    import pathlib

    from octave_mcp.core.hydrator import SourceUriSecurityError, VocabularyError, resolve_hermetic_standard, validate_source_uri
    from octave_mcp.schemas import loader

    _install_hook()
    wits = []
    n = 0
    # schema names: all strings up to length L over the alphabet; observe every path opened by load_schema_by_name
    alpha = ["A", "Z", "a", "0", "_", ".", "/", "-", "\\", "\n", "\x00", "é", " ", ":"]
    L = 5 if ctx.thorough else 4
    search = [str(p) for p in loader.get_schema_search_paths()]
    builtin = str(pathlib.Path(loader.__file__).parent)
    for k in range(0, L + 1):
        for tup in itertools.product(alpha, repeat=k):
            name = "".join(tup)
            n += 1
            del _EVENTS[:]
            try:
                loader.load_schema_by_name(name)
                loader.get_builtin_schema(name)
            except Exception:  # noqa: BLE001 - raising instead of returning None is C20's clause
                continue
            for p, _ in _EVENTS:
                if isinstance(p, str) and p.endswith(".oct.md"):
                    rp = os.path.realpath(p)
                    if not any(os.path.dirname(rp) == os.path.realpath(s) for s in search + [os.path.join(builtin, "builtin")]):
                        wits.append(Witness(what=f"schema name {name!r} opened {p} outside the schema directories", key=f"escape:{name!r}", input=name, confirmed=True))
    # plus the real-world shaped names
    for name in ("META", "../META", "META/../../x", "builtin/META", "META\n", "META.oct.md", "/etc/passwd", "meta", "M" * 300):
        n += 1
        del _EVENTS[:]
        try:
            loader.load_schema_by_name(name)
        except Exception:  # noqa: BLE001 - C20's clause
            pass
    f1, t1 = replay_frozen_probe()
    n += 8
    if f1:
        wits.append(Witness(what=t1, key="frozen", input="", replay={"runner": "props.C19_b:replay_frozen_probe", "args": {}}, confirmed=True))
    # digests: wrong length, path characters, case, whitespace
    d = tempfile.mkdtemp(prefix="vf-c19-")
    try:
        good = b"vocab\n"
        dg = hashlib.sha256(good).hexdigest()
        with open(os.path.join(d, dg[:16] + ".oct.md"), "wb") as f:
            f.write(good)
        for ref in [f"frozen@sha256:{dg[:i]}" for i in (0, 1, 15, 16, 17, 63, 65)] + [f"frozen@sha256:{dg[:16]}/../{dg[:16]}", f"frozen@sha256:{dg} ", f" frozen@sha256:{dg}", f"frozen@sha256:{dg[:-1]}g", f"frozen@sha256:{dg[:-2]}..", "latest", "LATEST", "frozen@sha512:" + dg, f"frozen@sha256:{dg}\x00"]:
            n += 1
            try:
                p = resolve_hermetic_standard(ref, cache_dir=pathlib.Path(d))
                got = hashlib.sha256(open(p, "rb").read()).hexdigest()
                if ref != "latest" and got != dg:
                    wits.append(Witness(what=f"{ref[:40]!r} resolved to a file whose bytes hash to {got[:12]}", key=f"digest:{ref[:30]}", input=ref, confirmed=True))
                if os.path.dirname(os.path.realpath(p)) != os.path.realpath(d):
                    wits.append(Witness(what=f"{ref[:40]!r} resolved outside the cache directory: {p}", key=f"digest-escape:{ref[:30]}", input=ref, confirmed=True))
            except VocabularyError:
                pass
            except Exception as e:  # noqa: BLE001
                wits.append(Witness(what=f"resolve_hermetic_standard({ref[:40]!r}) raised {type(e).__name__}: {str(e)[:60]}", key=f"digest-raise:{type(e).__name__}", input=ref[:60], confirmed=True))
    finally:
        shutil.rmtree(d, ignore_errors=True)
    f2, t2 = replay_source_uri_probe()
    n += 11

    # source URIs built from segments, over the tree
    def uris(root):
        base = pathlib.Path(root) / "sandbox"
        out = []
        segs = ["sub", ".", "..", "dirlink", "inlink", "danglingdir", "ok.oct.md", "secret.oct.md", "filelink.oct.md", "", "outside"]
        cnt = 0
        for k in (1, 2, 3):
            for tup in itertools.product(segs, repeat=k):
                uri = "/".join(tup)
                cnt += 1
                try:
                    p = validate_source_uri(uri, base)
                except SourceUriSecurityError:
                    continue
                except Exception as e:  # noqa: BLE001
                    out.append(f"validate_source_uri({uri!r}) raised {type(e).__name__}")
                    continue
                rb = str(base.resolve())
                if not (str(p) == rb or str(p).startswith(rb + os.sep)):
                    out.append(f"{uri!r} resolves to {p}, outside {rb}")
        return cnt, out

    cnt, out = _with_tree(uris)
    n += cnt
    if f2:
        wits.append(Witness(what=t2, key="source-uri", input="", replay={"runner": "props.C19_b:replay_source_uri_probe", "args": {}}, confirmed=True))
    for o in out[:5]:
        wits.append(Witness(what=o, key="source-uri:" + o[:40], input=o, confirmed=True))
    seen, uniq = set(), []
    for w in wits:
        if w.key not in seen:
            seen.add(w.key)
            uniq.append(w)
    extra = dict(bound=f"schema names: all strings up to length {L} over {alpha!r} + shaped names, every '.oct.md' path opened must lie directly in a schema directory; frozen references: correct / wrong-content / wrong-length / path-character / case / whitespace / NUL digests against a cache directory; source URIs: all '/'-joined strings of up to 3 segments over 11 segment kinds on the generated tree", evaluations=n, distinct_nontrivial=n, rule="a case is one string")
    if uniq:
        return Outcome.refuted("real loaders with audit hook", uniq[:20], **extra)
    return Outcome.ok("real loaders with audit hook", **extra)


def probe_schema_argument():
    """the four tools with path-like schema arguments: nothing outside the schema directories may be opened"""
    import pathlib

    from octave_mcp.mcp.compile_grammar import CompileGrammarTool
    from octave_mcp.mcp.eject import EjectTool
    from octave_mcp.mcp.validate import ValidateTool
    from octave_mcp.mcp.write import WriteTool
    from octave_mcp.schemas import loader

    _install_hook()

    def run(root):
        sb = os.path.join(root, "sandbox")
        os.chdir(sb)
        allowed = [os.path.realpath(str(p)) for p in loader.get_schema_search_paths()] + [os.path.realpath(str(pathlib.Path(loader.__file__).parent / "builtin"))]
        bad = []
        for schema in ("../outside/secret", "../outside/secret.oct.md", os.path.join(root, "outside", "secret.oct.md"), "dirlink/secret", "filelink", "ok", "sub/ok", "./ok.oct.md"):
            for label, mk in (("validate", lambda: ValidateTool().execute(content=DOC, schema=schema)), ("eject", lambda: EjectTool().execute(content=DOC, schema=schema)), ("compile_grammar", lambda: CompileGrammarTool().execute(schema=schema)), ("write", lambda: WriteTool().execute(target_path=os.path.join(sb, "w.oct.md"), content=DOC, schema=schema, corrections_only=True))):
                del _EVENTS[:]
                try:
                    asyncio.run(mk())
                except Exception:  # noqa: BLE001
                    pass
                for p, _ in _EVENTS:
                    if isinstance(p, str) and p.endswith((".oct.md", ".md", ".txt")):
                        rp = os.path.realpath(p)
                        if rp.startswith(root) and not rp.endswith("w.oct.md"):
                            bad.append(f"octave_{label}(schema={schema!r}) opened {os.path.relpath(rp, root)}")
        return bool(bad), "; ".join(bad[:2]) or "probe: path-like schema arguments open nothing in the tree"

    return _with_tree(run)


def replay_staleness_probe():
    """check_staleness's per-snapshot containment: a SOURCE_URI that climbs out of the allowed root - into a SIBLING whose
    name starts with the root's name, into a plain sibling, through a link - is refused before the file is opened"""
    import pathlib

    from octave_mcp.core import hydrator

    d = tempfile.mkdtemp(prefix="vf-c19s-")
    try:
        base = pathlib.Path(d) / "proj"
        (base / "docs").mkdir(parents=True)
        (base / "specs").mkdir()
        (base / "specs" / "v.oct.md").write_text("===V===\nA::1\n===END===\n", encoding="utf-8")
        for sib in ("proj-private", "projX", "other"):
            (pathlib.Path(d) / sib).mkdir()
            (pathlib.Path(d) / sib / "secret.oct.md").write_text("===S===\nSECRET::1\n===END===\n", encoding="utf-8")
        os.symlink(str(pathlib.Path(d) / "other"), str(base / "link"))
        _install_hook()
        bad = []
        for uri in ("../proj-private/secret.oct.md", "../projX/secret.oct.md", "../other/secret.oct.md", "link/secret.oct.md", "docs/../../proj-private/secret.oct.md", "/etc/passwd"):
            for root_kw in ({"allowed_root": base}, {}):
                del _EVENTS[:]
                r = hydrator._check_single_snapshot("ns", uri, "0" * 64, base_path=base, **root_kw)
                outside = [p for p, _ in _EVENTS if "secret.oct.md" in str(p) or str(p) == "/etc/passwd"]
                if r.status != "ERROR" or r.actual_hash is not None or outside:
                    bad.append(f"SOURCE_URI {uri!r} (allowed_root {'given' if root_kw else 'default'}): status {r.status}, hash {str(r.actual_hash)[:12]}, opened {outside[:1]}")
        r = hydrator._check_single_snapshot("ns", "docs/../specs/v.oct.md", "0" * 64, base_path=base, allowed_root=base)
        if r.status not in ("STALE", "FRESH"):
            bad.append(f"a source inside the root is refused: {r.status} {r.error}")
        return bool(bad), "; ".join(bad[:2]) or "probe: staleness checks never open a source outside the allowed root (sibling-prefix directories included)"
    finally:
        shutil.rmtree(d, ignore_errors=True)


# ---- the CLI as a writer: `octave write FILE`, `normalize -o`, `seal -o`, `hydrate -o` ---------------------------------------
CLI_SRC = '===DOC===\nMETA:\n  TYPE::"SPEC"\n  VERSION::"1.0.0"\n\n§CONTEXT::IMPORT["@test/vocab"]\n\n§1::CONTENT\n  USES_A::"Uses TERM_A here"\n\n===END===\n'
CLI_VOCAB = '===VOCAB===\nMETA:\n  TYPE::"CAPSULE"\n  VERSION::"1.0.0"\n\n§1::TERMS\n  TERM_A::"Definition of term A"\n  TERM_B::"Definition of term B"\n\n===END===\n'
CLI_BAD = ("../outside/secret.oct.md", "dirlink/x.oct.md", "dirlink/new.oct.md", "filelink.oct.md", "dangling.oct.md", "danglingdir/x.oct.md", "inlink/ok.oct.md", "x.txt", "sub/../ok.oct.md", "sub/../new.oct.md", "sub/dirlink/x.oct.md", "looplink", "noext")


def cli_commands(sb: str, target: str) -> list[tuple[str, list[str]]]:
    src = os.path.join(sb, "clisrc.oct.md")
    return [
        ("write FILE --content", ["write", target, "--content", DOC]),
        ("normalize -o", ["normalize", src, "-o", target]),
        ("seal -o", ["seal", src, "-o", target]),
        ("hydrate -o", ["hydrate", src, "--mapping", f"@test/vocab={os.path.join(sb, 'clivocab.oct.md')}", "-o", target]),
    ]


def _cli_setup(sb: str) -> None:
    for n, t in (("clisrc.oct.md", CLI_SRC), ("clivocab.oct.md", CLI_VOCAB)):
        with open(os.path.join(sb, n), "w", encoding="utf-8") as f:
            f.write(t)


def replay_cli_probe(which: str = ""):
    """every CLI command that writes a file, given an output path with '..', a symlink in any component or a
    disallowed extension (absolute and relative to the sandbox): must exit non-zero and leave the whole tree as it was;
    an ordinary path is accepted (the refusals are not vacuous)."""

    def run(root):
        from click.testing import CliRunner

        from octave_mcp.cli.main import cli

        sb = os.path.join(root, "sandbox")
        _cli_setup(sb)
        os.chdir(sb)
        runner = CliRunner()
        bad = []
        n = 0
        for rel in CLI_BAD:
            for target in (os.path.join(sb, rel), rel):
                for name, argv in cli_commands(sb, target):
                    if which and which != name:
                        continue
                    before = snapshot(root)
                    res = runner.invoke(cli, argv)
                    after = snapshot(root)
                    n += 1
                    changed = sorted(k for k in set(before) | set(after) if before.get(k) != after.get(k))
                    if res.exit_code == 0 or changed:
                        bad.append(f"`octave {name}` with output path {target[len(sb) + 1:] if target.startswith(sb) else target!r} ({'absolute' if target.startswith(sb) else 'relative'}): exit code {res.exit_code}, changed entries {changed[:3]}")
                    if changed:
                        return True, "; ".join(bad[:3])  # the tree is no longer pristine
        for name, argv in cli_commands(sb, os.path.join(sb, "sub", "cliout.oct.md")):
            if which and which != name:
                continue
            res = runner.invoke(cli, argv)
            if res.exit_code != 0:
                bad.append(f"`octave {name}` refuses an ordinary output path: {res.output.strip()[:120]!r}")
        return bool(bad), "; ".join(bad[:3]) or f"{n} CLI calls with bad output paths refused with the tree unchanged; ordinary paths accepted"

    return _with_tree(run)


def ob_cli(ctx: Ctx) -> Outcome:
    failed, text = replay_cli_probe()
    extra = dict(bound=f"{len(CLI_BAD)} bad output paths ('..', symlinked directory / file / dangling / loop, inside and outside targets, disallowed extensions) x absolute and relative spelling x 4 CLI commands that write (write FILE, normalize -o, seal -o, hydrate -o); observed: exit code and a snapshot of the whole tree before/after; plus one ordinary path per command", evaluations=len(CLI_BAD) * 2 * 4 + 4, distinct_nontrivial=len(CLI_BAD) * 2 * 4, rule="a case is one CLI invocation; non-trivial: the property demands refusal")
    if failed:
        return Outcome.refuted("real CLI on a generated tree", [Witness(what=text[:700], key="cli|" + text.split("`")[1] if "`" in text else "cli", input=text[:200], replay={"runner": "props.C19_b:replay_cli_probe", "args": {}}, confirmed=True)], **extra)
    return Outcome.ok("real CLI on a generated tree", **extra)
