"""C14 — projections only remove, and say so."""
from __future__ import annotations

from contracts import projector as PC
from verif.common import Ctx, Ob
from verif.pyvc.adapter import contract_ob

PROPERTY = "C14"
LEVEL = "other"
LEVEL_TEXT = "the projector is proved on the real code: _filter_fields returns exactly the specified sub-forest (kept keys with all descendants, non-kept blocks only when a descendant is kept, order preserved, kept leaves are the source objects, input untouched) on a representative tree with symbolic keys; project's mode dispatch and lossy flag for every mode; the JSON/YAML converter keeps every leaf at its path and invents no key on a representative document (sections, nested blocks, zone, META); Markdown and the agreement of the four renderings are bounded"
LEVEL_NOTE = "tree-shaped obligations hold for the representative spines (symbolic keys/values); duplicate sibling keys collapse in dict views (known finding); CLI `octave eject` has its own converters (bounded only)"
TECHNIQUE = "pre/postconditions on the real projector / converter functions, VCs from the AST discharged by z3; bounded leaf-set comparison over model documents x modes x formats"
EXPLANATION = "C14: P contracts on _filter_fields, project (5 modes), _convert_value (4 value kinds), _ast_to_dict; B: leaves(view) ⊆ leaves(source) at the same paths, equality and lossy=false for canonical/authoring, same leaf set in the four renderings."
ASSUMPTIONS = ["emit is abstracted at project's call sites (its own properties are C01/C03)", "representative tree shapes"]
TRUSTED_BASE = ["z3", "verif.pyvc"]


def obligations(ctx: Ctx):
    P = PROPERTY
    obs = [contract_ob(f"{P}.P1", "_filter_fields returns the specified sub-forest, input untouched", lambda: PC.FILTER, "contracts.projector:FILTER")]
    for m in ("canonical", "authoring", "executive", "developer", "bogus"):
        obs.append(contract_ob(f"{P}.P2.{m}", f"project(mode={m}): filtered_doc / lossy / fields_omitted / output as specified", (lambda m=m: PC.project_contract(m)), f"contracts.projector:project_contract('{m}')"))
    for k in ("scalar", "zone", "holo", "list"):
        obs.append(contract_ob(f"{P}.P3.value.{k}", f"_convert_value keeps a {k} value verbatim", (lambda k=k: PC.convert_contract(k)), f"contracts.projector:convert_contract('{k}')"))
    obs.append(contract_ob(f"{P}.P3.dict", "_ast_to_dict: every leaf at its path, no key invented (sections, nested blocks, zone, META)", lambda: PC.AST_TO_DICT, "contracts.projector:AST_TO_DICT"))
    try:
        from props import C14_b

        obs.append(Ob(f"{P}.B1", "B", "model documents x 4 modes x 4 formats through octave_eject: leaves(view) ⊆ leaves(source); canonical/authoring complete; renderings agree", ["octave_mcp.mcp.eject:EjectTool.execute", "octave_mcp.core.projector:project"], C14_b.ob_b1, timeout=3000))
    except ImportError:
        pass
    return obs
