"""C09.B1 — schema x instance x respellings x profiles through the validator API and octave_validate."""
from __future__ import annotations

import asyncio
import itertools
import os
import random

from props import C10_b
from verif.bounded.sweep import sweep
from verif.common import Ctx, Outcome, Witness

FIELDS = {
    "STATUS": ["ACTIVE", "DRAFT", "DR", "NOPE", "active", None],
    "NAME": ["x", '"a b"', '""', None],
    "EXTRA": [None, "1"],
    "LIST": [None, "[a,b,c]", "[a,b]"],
}


def respellings(lines: list[str]) -> list[str]:
    canon = "===DOC===\nMETA:\n  TYPE::T\n  VERSION::\"1\"\nRPR:\n" + "".join(f"  {ln}\n" for ln in lines) + "===END===\n"
    a = "===DOC===\nMETA:\n    TYPE :: T\n    VERSION::\"1\"\n\nRPR:\n" + "".join(f"    {ln.replace('::', ' :: ', 1)}   \n\n" for ln in lines)
    b = "===DOC===\nMETA:\n  TYPE::\"T\"\n  VERSION::\"\"\"1\"\"\"\nRPR:\n" + "".join("  " + (ln.replace("[a,b,c]", "[\n    a,\n    b,\n    c\n  ]").replace("[a,b]", "[\n    a,\n    b\n  ]")) + "\n" for ln in lines) + "===END===\n"
    return [canon, a, b]


def _verdict_api(text, sch, strict):
    from octave_mcp.core.parser import parse_with_warnings
    from octave_mcp.core.validator import Validator

    doc, _ = parse_with_warnings(text)
    v = Validator(schema=None)
    errs = v.validate(doc, strict=strict, section_schemas={sch.name: sch})
    return frozenset((e.code, e.field_path) for e in errs)


_SCH = None


def _one(item):
    global _SCH
    from octave_mcp.core.emitter import emit
    from octave_mcp.core.parser import parse, parse_with_warnings
    from octave_mcp.core.schema_extractor import extract_schema_from_document
    from octave_mcp.mcp.validate import ValidateTool

    C10_b._cwd()
    if _SCH is None:
        _SCH = extract_schema_from_document(parse(C10_b.RPR))
    choice, profile = item
    lines = [f"{k}::{v}" for k, v in zip(FIELDS, choice) if v is not None]
    if not lines:
        return None
    texts = respellings(lines)
    problems = []
    try:
        canon = emit(parse_with_warnings(texts[0])[0])
    except Exception:  # noqa: BLE001
        return None
    texts += [canon, emit(parse(canon))]
    api = []
    tool = []
    for t in texts:
        try:
            api.append(_verdict_api(t, _SCH, profile == "STRICT"))
        except Exception as e:  # noqa: BLE001
            problems.append(f"validator raised {type(e).__name__} on a respelling {t!r}")
            break
        res = asyncio.run(ValidateTool().execute(content=t, schema="RPR", profile=profile))
        tool.append((res.get("validation_status"), frozenset((e.get("code"), e.get("field")) for e in res.get("validation_errors", []))))
        plain = emit(parse_with_warnings(t)[0])
        if res.get("canonical") != plain:
            problems.append(f"fix off: canonical returned by octave_validate differs from plain canonicalisation for {t!r}")
        res2 = asyncio.run(ValidateTool().execute(content=t, schema="RPR", profile=profile))
        if (res2.get("validation_status"), res2.get("canonical"), [(e.get("code"), e.get("field")) for e in res2.get("validation_errors", [])]) != (res.get("validation_status"), res.get("canonical"), [(e.get("code"), e.get("field")) for e in res.get("validation_errors", [])]):
            problems.append("validating twice gives different answers")
    if not problems and len(set(api)) > 1:
        problems.append(f"validator API: (code, field) sets differ between respellings: {[sorted(x) for x in set(api)][:2]}")
    if not problems and len(set(tool)) > 1:
        problems.append(f"octave_validate: status / (code, field) set differ between respellings: {[(s, sorted(e)) for s, e in set(tool)][:2]}")
    if problems:
        return True, f"instance {lines} profile {profile}: {problems[0]}", True, item
    return False, "", True, item


def items(ctx: Ctx):
    for choice in itertools.product(*FIELDS.values()):
        for profile in ("STRICT", "STANDARD", "LENIENT", "ULTRA"):
            yield (choice, profile)


def replay(item):
    r = _one((tuple(item[0]), item[1]))
    if r is None:
        return False, "not applicable"
    return r[0], r[1] or "verdicts agree across respellings"


def ob_b1(ctx: Ctx) -> Outcome:
    res = sweep(_one, items(ctx), ctx.cores, chunk=10)
    wits = [Witness(what=text, input=[list(item[0]), item[1]], key=f"{item}", replay={"runner": "props.C09_b:replay", "args": {"item": [list(item[0]), item[1]]}}, confirmed=True) for item, text in res["failures"][:60]]
    extra = dict(bound="generated schema (REQ∧ENUM, REQ, UNKNOWN_FIELDS::WARN) x every combination of per-field instance variants (valid, prefix, wrong, missing, extra field, list) x {canonical, 2 lenient respellings, canonical text, canonical of canonical} x 4 profiles; validator API and octave_validate; each call made twice",
                 evaluations=res["evaluations"] * 5, distinct_nontrivial=res["distinct"], rule="a case is (instance variant choice, profile) with its 5 spellings; distinct by that pair; non-trivial: the instance has at least one field", samples=[[["ACTIVE", "x", None, "[a,b,c]"], "STRICT"]])
    if wits:
        return Outcome.refuted("real validator/tool", wits, **extra)
    return Outcome.ok("real validator/tool", **extra)


ob_b1.wants_all_cores = True
