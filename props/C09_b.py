"""C09.B1 — schema x instance x respellings x profiles through the validator API and octave_validate."""
from __future__ import annotations

import asyncio
import itertools
import os
import random

from props import C10_b
from verif.bounded.sweep import sweep
from verif.common import Ctx, Outcome, Witness

FIELDS = {
    "STATUS": ["ACTIVE", "DRAFT", "DR", "NOPE", "active", None],
    "NAME": ["x", '"a b"', '""', None],
    "EXTRA": [None, "1"],
    "LIST": [None, "[a,b,c]", "[a,b]"],
}


def respellings(lines: list[str]) -> list[str]:
    canon = "===DOC===\nMETA:\n  TYPE::T\n  VERSION::\"1\"\nRPR:\n" + "".join(f"  {ln}\n" for ln in lines) + "===END===\n"
    a = "===DOC===\nMETA:\n    TYPE :: T\n    VERSION::\"1\"\n\nRPR:\n" + "".join(f"    {ln.replace('::', ' :: ', 1)}   \n\n" for ln in lines)
    b = "===DOC===\nMETA:\n  TYPE::\"T\"\n  VERSION::\"\"\"1\"\"\"\nRPR:\n" + "".join("  " + (ln.replace("[a,b,c]", "[\n    a,\n    b,\n    c\n  ]").replace("[a,b]", "[\n    a,\n    b\n  ]")) + "\n" for ln in lines) + "===END===\n"
    return [canon, a, b]


def _verdict_api(text, sch, strict):
    from octave_mcp.core.parser import parse_with_warnings
    from octave_mcp.core.validator import Validator

    doc, _ = parse_with_warnings(text)
    v = Validator(schema=None)
    errs = v.validate(doc, strict=strict, section_schemas={sch.name: sch})
    return frozenset((e.code, e.field_path) for e in errs)


_SCH = None


def _one(item):
    global _SCH
    from octave_mcp.core.emitter import emit
    from octave_mcp.core.parser import parse, parse_with_warnings
    from octave_mcp.core.schema_extractor import extract_schema_from_document
    from octave_mcp.mcp.validate import ValidateTool

    C10_b._cwd()
    if _SCH is None:
        _SCH = extract_schema_from_document(parse(C10_b.RPR))
    choice, profile = item
    lines = [f"{k}::{v}" for k, v in zip(FIELDS, choice) if v is not None]
    if not lines:
        return None
    texts = respellings(lines)
    problems = []
    try:
        canon = emit(parse_with_warnings(texts[0])[0])
    except Exception:  # noqa: BLE001
        return None
    texts += [canon, emit(parse(canon))]
    api = []
    tool = []
    for t in texts:
        try:
            api.append(_verdict_api(t, _SCH, profile == "STRICT"))
        except Exception as e:  # noqa: BLE001
            problems.append(f"validator raised {type(e).__name__} on a respelling {t!r}")
            break
        res = asyncio.run(ValidateTool().execute(content=t, schema="RPR", profile=profile))
        tool.append((res.get("validation_status"), frozenset((e.get("code"), e.get("field")) for e in res.get("validation_errors", []))))
        plain = emit(parse_with_warnings(t)[0])
        if res.get("canonical") != plain:
            problems.append(f"fix off: canonical returned by octave_validate differs from plain canonicalisation for {t!r}")
        res2 = asyncio.run(ValidateTool().execute(content=t, schema="RPR", profile=profile))
        if (res2.get("validation_status"), res2.get("canonical"), [(e.get("code"), e.get("field")) for e in res2.get("validation_errors", [])]) != (res.get("validation_status"), res.get("canonical"), [(e.get("code"), e.get("field")) for e in res.get("validation_errors", [])]):
            problems.append("validating twice gives different answers")
    if not problems and len(set(api)) > 1:
        problems.append(f"validator API: (code, field) sets differ between respellings: {[sorted(x) for x in set(api)][:2]}")
    if not problems and len(set(tool)) > 1:
        problems.append(f"octave_validate: status / (code, field) set differ between respellings: {[(s, sorted(e)) for s, e in set(tool)][:2]}")
    if problems:
        return True, f"instance {lines} profile {profile}: {problems[0]}", True, item
    return False, "", True, item


def items(ctx: Ctx):
    for choice in itertools.product(*FIELDS.values()):
        for profile in ("STRICT", "STANDARD", "LENIENT", "ULTRA"):
            yield (choice, profile)


def replay(item):
    r = _one((tuple(item[0]), item[1]))
    if r is None:
        return False, "not applicable"
    return r[0], r[1] or "verdicts agree across respellings"


def ob_b1(ctx: Ctx) -> Outcome:
    res = sweep(_one, items(ctx), ctx.cores, chunk=10)
    wits = [Witness(what=text, input=[list(item[0]), item[1]], key=f"{item}", replay={"runner": "props.C09_b:replay", "args": {"item": [list(item[0]), item[1]]}}, confirmed=True) for item, text in res["failures"][:60]]
    extra = dict(bound="generated schema (REQ∧ENUM, REQ, UNKNOWN_FIELDS::WARN) x every combination of per-field instance variants (valid, prefix, wrong, missing, extra field, list) x {canonical, 2 lenient respellings, canonical text, canonical of canonical} x 4 profiles; validator API and octave_validate; each call made twice",
                 evaluations=res["evaluations"] * 5, distinct_nontrivial=res["distinct"], rule="a case is (instance variant choice, profile) with its 5 spellings; distinct by that pair; non-trivial: the instance has at least one field", samples=[[["ACTIVE", "x", None, "[a,b,c]"], "STRICT"]])
    if wits:
        return Outcome.refuted("real validator/tool", wits, **extra)
    return Outcome.ok("real validator/tool", **extra)


ob_b1.wants_all_cores = True


# ---- B2: schemas with FRONTMATTER requirements (builtin SKILL): x, canonical(x), canonical(canonical(x)) --------------------------
FM_BODIES = {
    "plain": "name: demo-skill\ndescription: Demonstrates validation\nallowed-tools: [Read, Write]",
    "indented": "  name: demo-skill\n  description: Demonstrates validation\n  allowed-tools: [Read, Write]",
    "trailing-spaces": "name: demo-skill   \ndescription: Demonstrates validation  ",
    "leading-blank": "\nname: demo-skill\ndescription: Demonstrates validation",
    "missing-description": "name: demo-skill",
    "indented-missing": "    name: demo-skill",
    "not-a-mapping": "- a\n- b",
    "broken-yaml": "name: [unclosed",
}


def _fm_doc(body: str) -> str:
    return "---\n" + body + "\n---\n\n===DEMO_SKILL===\nMETA:\n  TYPE::SKILL\n  VERSION::\"1.0\"\nBODY::some_text\n===END===\n"


def _fm_one(item):
    from octave_mcp.core.emitter import emit
    from octave_mcp.core.parser import parse_with_warnings
    from octave_mcp.mcp.validate import ValidateTool

    name, profile = item
    x = _fm_doc(FM_BODIES[name])
    try:
        c1 = emit(parse_with_warnings(x)[0])
        c2 = emit(parse_with_warnings(c1)[0])
    except Exception as e:  # noqa: BLE001
        return True, f"frontmatter {name!r}: canonicalisation raised {type(e).__name__}: {e}", True, item
    seen = []
    for label, t in (("x", x), ("canonical(x)", c1), ("canonical(canonical(x))", c2)):
        r = asyncio.run(ValidateTool().execute(content=t, schema="SKILL", profile=profile))
        pairs = frozenset((e.get("code"), e.get("field")) for e in list(r.get("validation_errors") or []) + [w for w in (r.get("warnings") or []) if str(w.get("code", "")).startswith("E")])
        seen.append((label, r.get("validation_status"), pairs))
        if label == "x" and r.get("canonical") != c1:
            return True, f"frontmatter {name!r} profile {profile}: fix off: canonical returned by octave_validate differs from plain canonicalisation", True, item
    if len({(s, p) for _, s, p in seen}) > 1:
        return True, f"frontmatter {name!r} profile {profile}: verdicts differ between spellings: {[(lab, s, sorted(p)) for lab, s, p in seen]}", True, item
    return False, "", True, item


def replay_fm(item):
    r = _fm_one((item[0], item[1]))
    return r[0], r[1] or "verdicts agree"


def ob_b2(ctx: Ctx) -> Outcome:
    items_ = [(n, p) for n in FM_BODIES for p in ("STRICT", "STANDARD", "LENIENT", "ULTRA")]
    res = sweep(_fm_one, items_, 1, chunk=4)  # small; runs inside a pool worker, so no pool of its own
    wits = [Witness(what=text, input=list(item), key=f"fm|{item[0]}", replay={"runner": "props.C09_b:replay_fm", "args": {"item": list(item)}}, confirmed=True) for item, text in res["failures"][:20]]
    extra = dict(bound=f"builtin SKILL schema (FRONTMATTER requirements) x {len(FM_BODIES)} frontmatter bodies (plain, uniformly indented, trailing spaces, leading blank line, missing field, not a mapping, broken YAML) x 4 profiles; x, canonical(x), canonical(canonical(x)) through octave_validate", evaluations=res["evaluations"] * 3, distinct_nontrivial=res["distinct"], rule="a case is (frontmatter body, profile) with its 3 spellings")
    if wits:
        return Outcome.refuted("real validator/tool", wits, **extra)
    return Outcome.ok("real validator/tool", **extra)
