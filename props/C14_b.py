"""C14.B1 — bounded: model documents x modes x formats through the real octave_eject."""
from __future__ import annotations

import asyncio
import json
import re

from props import docs_b
from verif.bounded import model as M
from verif.bounded.sweep import sweep
from verif.common import Ctx, Outcome, Witness

_CFG: dict = {}
FILTER_KEYS = {"executive": {"STATUS", "RISKS", "DECISIONS"}, "developer": {"TESTS", "CI", "DEPS"}}


def ast_leaves(doc):
    """multiset of (path tuple, repr of python value) from a repo Document (source of truth = the strict reader's AST)"""
    from octave_mcp.core.ast_nodes import Assignment, Block, HolographicValue, InlineMap, ListValue, LiteralZoneValue, Section

    out = []

    def val(v):
        if isinstance(v, ListValue):
            return [val(x) for x in v.items]
        if isinstance(v, InlineMap):
            return {k: val(x) for k, x in v.pairs.items()}
        if isinstance(v, LiteralZoneValue):
            return {"__literal_zone__": True, "content": v.content, "info_tag": v.info_tag, "fence_marker": v.fence_marker}
        if isinstance(v, HolographicValue):
            return v.raw_pattern
        return v

    def walk(nodes, path):
        for n in nodes:
            if isinstance(n, Assignment):
                out.append((path + (n.key,), json.dumps(val(n.value), sort_keys=True, ensure_ascii=False, default=str)))
            elif isinstance(n, Block):
                walk(n.children, path + (n.key,))
            elif isinstance(n, Section):
                walk(n.children, path + (f"§{n.section_id}::{n.key}",))

    for k, v in (doc.meta or {}).items():
        out.append((("META", k), json.dumps(val(v) if not isinstance(v, dict) else {a: val(b) for a, b in v.items()}, sort_keys=True, ensure_ascii=False, default=str)))
    walk(doc.sections, ())
    return out


def dict_leaves(d, path=()):
    out = []
    for k, v in d.items():
        if isinstance(v, dict) and not v.get("__literal_zone__") and (path != ("META",)) and _is_container(path, k, v):
            out += dict_leaves(v, path + (k,))
        else:
            out.append((path + (k,), json.dumps(v, sort_keys=True, ensure_ascii=False, default=str)))
    return out


_CONTAINERS: set = set()


def _is_container(path, k, v):
    return (path + (k,)) in _CONTAINERS or path == () and k == "META"


def container_paths(doc):
    from octave_mcp.core.ast_nodes import Block, Section

    out = set()

    def walk(nodes, path):
        for n in nodes:
            if isinstance(n, Block):
                out.add(path + (n.key,))
                walk(n.children, path + (n.key,))
            elif isinstance(n, Section):
                p = path + (f"§{n.section_id}::{n.key}",)
                out.add(p)
                walk(n.children, p)

    walk(doc.sections, ())
    return out


def _one(idx: int):
    import yaml

    from octave_mcp.core.parser import parse
    from octave_mcp.mcp.eject import EjectTool

    global _CONTAINERS
    m = docs_b.docs(*_CFG["docs"])[idx]
    feats = docs_b.features(m) & docs_b.KNOWN_FEATURES
    c0 = M.render_canonical(m)
    try:
        src = parse(c0)
    except Exception:  # noqa: BLE001
        return None
    _CONTAINERS = container_paths(src)
    src_leaves = ast_leaves(src)
    src_set = set(src_leaves)
    has_dups = len({p for p, _ in src_leaves}) != len(src_leaves) or "duplicate-sibling-keys" in docs_b.features(m)
    fails = []
    for mode in ("canonical", "authoring", "executive", "developer"):
        views = {}
        out_md = ""
        for fmt in ("octave", "json", "yaml", "markdown"):
            try:
                res = asyncio.run(EjectTool().execute(content=c0, schema="META", mode=mode, format=fmt))
            except Exception as e:  # noqa: BLE001
                fails.append(f"eject(mode={mode}, format={fmt}) raised {type(e).__name__}: {e}")
                continue
            out = res.get("output", "")
            lossy = res.get("lossy")
            if mode in ("canonical", "authoring") and lossy is not False:
                fails.append(f"mode {mode} reports lossy={lossy}")
            if mode in ("executive", "developer") and lossy is not True:
                fails.append(f"mode {mode} reports lossy={lossy}")
            try:
                if fmt == "json":
                    leaves = dict_leaves(json.loads(out))
                elif fmt == "yaml":
                    leaves = dict_leaves(yaml.safe_load(out) or {})
                elif fmt == "octave":
                    leaves = ast_leaves(parse(out))
                else:
                    leaves = None
                    keys = set(re.findall(r"\*\*([^*]+)\*\*:", out))
                    heads = set(h.strip() for h in re.findall(r"^#{2,}\s+(.+)$", out, re.M))
                    views[fmt] = ("md", keys, heads)
                    out_md = out
            except Exception as e:  # noqa: BLE001
                if not feats:
                    fails.append(f"view (mode={mode}, format={fmt}) cannot be read back: {type(e).__name__}: {e} | {out[:200]!r}")
                continue
            if leaves is not None:
                views[fmt] = ("leaves", leaves)
                extra = [l for l in leaves if l not in src_set]
                if extra and not (fmt == "yaml" and _yaml_retype(extra, src_leaves)):
                    fails.append(f"view (mode={mode}, format={fmt}) contains a leaf the source does not have at that path: {extra[0]}")
                if mode in ("canonical", "authoring"):
                    missing = [l for l in src_leaves if l not in set(leaves)]
                    if missing and not (fmt == "yaml" and _yaml_retype(missing, leaves)):
                        fails.append(f"view (mode={mode}, format={fmt}) lacks a source leaf: {missing[0]}")
        # the renderings of one projection carry the same leaves (paths)
        paths = {f: {p for p, _ in v[1]} for f, v in views.items() if v[0] == "leaves"}
        if len({frozenset(x) for x in paths.values()}) > 1:
            fails.append(f"mode {mode}: renderings disagree on the set of leaf paths: { {f: sorted(map(str, x))[:4] for f, x in paths.items()} }")
        if "markdown" in views and "json" in paths and not has_dups:
            _, keys, heads = views["markdown"]
            want = {p[-1] for p in paths["json"] if p[0] != "META" or True}
            lack = {k for k in want if k not in keys and k not in heads and not (k == "" and "****:" in out_md)}
            if lack:
                fails.append(f"mode {mode}: markdown rendering lacks keys {sorted(lack)[:3]}")
    if fails:
        return True, f"{fails[0]} | document {c0!r} | model features {sorted(feats)}", True, idx
    return False, "", bool(src_leaves), idx


def _yaml_retype(diff, other):
    """YAML re-types some scalars on load (dates, 'yes'); paths equal, value differs only by YAML typing: not the tool's invention"""
    op = {p for p, _ in other}
    return all(p in op for p, _ in diff)


def replay(docs_cfg, idx):
    _CFG.update(docs=tuple(docs_cfg))
    r = _one(idx)
    if r is None:
        return False, "document does not parse"
    return r[0], r[1] or "views only remove"


def ob_b1(ctx: Ctx) -> Outcome:
    docs_cfg = (2, 2, ctx.seed, 8000 if ctx.thorough else 3000)
    _CFG.update(docs=docs_cfg)
    n = len(docs_b.docs(*docs_cfg))
    res = sweep(_one, range(n), ctx.cores, chunk=20)
    wits = []
    seen = set()
    for idx, text in res["failures"][:3000]:
        m = docs_b.docs(*docs_cfg)[idx]
        feats = sorted(docs_b.features(m) & docs_b.KNOWN_FEATURES)
        head = re.sub(r"\(.*?\)", "", text.split(":", 1)[0])[:50]
        key = f"{head}|{','.join(feats) if feats else 'no-known-feature'}"
        if key in seen:
            continue
        seen.add(key)
        wits.append(Witness(what=text[:1200], input={"doc_index": idx}, key=key, replay={"runner": "props.C14_b:replay", "args": {"docs_cfg": list(docs_cfg), "idx": idx}}, confirmed=True))
    extra = dict(bound=f"{n} model documents x 4 modes x 4 content formats through octave_eject; source leaves from the strict reader's AST; JSON/YAML/OCTAVE views read back, Markdown scanned for keys",
                 evaluations=res["evaluations"] * 16, distinct_nontrivial=res["nontrivial"], rule="a case is a model document (16 views); distinct by index; non-trivial: the document has at least one leaf", samples=[M.render_canonical(docs_b.docs(*docs_cfg)[0])], failing_documents=len(res["failures"]))
    if wits:
        return Outcome.refuted("real octave_eject", wits, **extra)
    return Outcome.ok("real octave_eject", **extra)


ob_b1.wants_all_cores = True
