"""C01 — canonicalisation is idempotent and its output is re-readable."""
from functools import partial

from props import docs_b, framesobs
from props import rawchars_b
from props import lexical as LX
from verif.common import Ctx, Ob

PROPERTY = "C01"
LEVEL = "other"
LEVEL_TEXT = "lexical half proved for all strings (what the emitter writes for a scalar re-lexes to the token that carries it back: regular-language / transducer obligations from the real source); the emitter's frame (reads no source position, no ambient effect) proved by inference; the round trip through the parser is a bounded exhaustive stand-in over an independent content model"
LEVEL_NOTE = "RT itself (parser) is explored, not proved: a change inside the parser's indent tracking is caught only if an enumerated document exhibits it; A-greedy, A-float-repr, unicodedata NFC tables as in C04"
TECHNIQUE = "language inclusion / transducer identity (R) + frame inference (F) on the real emitter and lexer; bounded model-document round trips (B) for the parser"
EXPLANATION = "C01: R obligations (shared lexical kernel), F obligation on the emitter, B sweep: emit(parse(x)) accepted by the strict reader and byte-stable for every model document and lenient rendering."
ASSUMPTIONS = ["as C04 (A-greedy, A-float-repr, A-nfc-local)", "the parser half of the round trip is bounded (B), never counted as proved"]
TRUSTED_BASE = ["CPython re/str/unicodedata", "verif.reglang", "verif.frames", "verif.bounded.model (independent content model)"]

EMIT = ["octave_mcp.core.emitter:emit"]


def ob_b1(ctx: Ctx):
    return docs_b.run(ctx, {"C01"}, 6000, 40000, 4, 16)


ob_b1.wants_all_cores = True


def obligations(ctx: Ctx):
    P = PROPERTY
    return [
        Ob(f"{P}.F4.frontmatter", "F", "frontmatter stripping cuts and glues on the same literal newline: the body passes through byte for byte", ["octave_mcp.core.parser:_strip_yaml_frontmatter"], LX.ob_frontmatter_split_join),
        Ob(f"{P}.F3.tokens", "F", "tokenize only appends to its token list (one documented in-place % merge): an emitted token is never replaced", LX.FUNCS_LEX, LX.ob_token_stream_frame),
        Ob(f"{P}.R0", "R", "tokenize control skeleton matches the step model", LX.FUNCS_LEX, LX.ob_skeleton),
        Ob(f"{P}.R1.var", "R", "bare $variables re-lex to one VARIABLE token", LX.FUNCS_EMIT + LX.FUNCS_LEX, partial(LX.ob_var, oid=f"{P}.R1")),
        Ob(f"{P}.R1.ident", "R", "bare identifier-class strings re-lex to one IDENTIFIER token", LX.FUNCS_EMIT + LX.FUNCS_LEX, partial(LX.ob_ident, oid=f"{P}.R1", which="ident")),
        Ob(f"{P}.R1.ann", "R", "bare NAME<qualifier> strings re-lex to one IDENTIFIER token", LX.FUNCS_EMIT + LX.FUNCS_LEX, partial(LX.ob_ident, oid=f"{P}.R1", which="ann")),
        Ob(f"{P}.R1.expr", "R", "bare operator expressions re-lex segment by segment", LX.FUNCS_EMIT + LX.FUNCS_LEX, partial(LX.ob_expr, oid=f"{P}.R1")),
        Ob(f"{P}.R2", "R", "numbers, booleans, null re-lex with their type", LX.FUNCS_EMIT + LX.FUNCS_LEX, partial(LX.ob_literals, oid=f"{P}.R2")),
        Ob(f"{P}.T1.shape", "R", "quoted emission is one single-quoted STRING token", LX.FUNCS_EMIT + LX.FUNCS_LEX, partial(LX.ob_quoted_shape, oid=f"{P}.T1")),
        Ob(f"{P}.T1.inverse", "R", "unescape(escape(v)) == v for every string", LX.FUNCS_EMIT + LX.FUNCS_LEX, partial(LX.ob_escape_inverse, oid=f"{P}.T1")),
        Ob(f"{P}.T1.nfc", "R", "emitted scalar text is stable under the reader's NFC pass", LX.FUNCS_EMIT + LX.FUNCS_LEX, partial(LX.ob_nfc_stable, oid=f"{P}.T1")),
        Ob(f"{P}.F1.reads", "F", "the emitter reads no source position (line, column, tokens)", EMIT, framesobs.ob_reads_no_position(EMIT)),
        Ob(f"{P}.F1.effects", "F", "the emitter has no ambient effect", EMIT, framesobs.ob_no_effects(EMIT, ("global_write", "env", "cwd", "clock", "random", "locale", "hash_order", "identity", "fs_read", "fs_write", "subprocess", "await"))),
        Ob(f"{P}.F1.assigns", "F", "the emitter mutates only fresh locals", EMIT, framesobs.ob_params_not_mutated(EMIT, ("octave_mcp.core.emitter:",))),
        Ob(f"{P}.F5.holo", "F", "the written form of a holographic value escapes its strings with the emitter's chain (so unescape∘escape = id covers strings inside patterns)", ["octave_mcp.core.parser:Parser._reconstruct_pattern_from_tokens", "octave_mcp.core.parser:Parser._try_parse_holographic"], LX.ob_holographic_chain),
        Ob(f"{P}.B4", "B", "hand-found documents outside the model (nameless sections, holographic patterns with escapes): canonical output is strict-readable and byte-stable", ["octave_mcp.core.parser:parse", "octave_mcp.core.emitter:emit"], rawchars_b.ob_hand, timeout=600),
        Ob(f"{P}.B3", "B", "control characters delivered raw inside quotes / comments through octave_write(content): the file written is a fixed point of normalize", ["octave_mcp.mcp.write:WriteTool.execute"], rawchars_b.ob_raw(f"{P}.B3"), timeout=600),
        Ob(f"{P}.B1", "B", "emit∘parse is accepted by the strict reader and byte-stable on every model document / lenient rendering", ["octave_mcp.core.parser:parse", "octave_mcp.core.parser:parse_with_warnings", "octave_mcp.core.emitter:emit"], ob_b1, timeout=3000),
    ] + LX.emit_layout_obs(P) + LX.parse_scalar_obs(P)
