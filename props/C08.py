"""C08 — validator verdicts follow the documented constraint semantics."""
from __future__ import annotations

from contracts import constraints as CC
from props import C08_b
from verif.common import Ctx, Ob
from verif.pyvc.adapter import contract_ob

PROPERTY = "C08"
LEVEL = "other"
LEVEL_TEXT = "member and chain semantics proved on the real evaluate bodies for all parameters and all values (VCs from the AST, z3); chain length bounded by the property's own bound (<= 3 quick, <= 4 thorough); text -> chain parsing and document-level validation are bounded stand-ins against an independent reference evaluator"
LEVEL_NOTE = "A-float (finite floats are exact reals; NaN/inf modelled by kind), A-eq (== on heap objects uninterpreted), A-datetime (fromisoformat uninterpreted), A-re (re.match uninterpreted per pattern), CPython str()/float() on strings uninterpreted partial functions; virtual calls use the contract of Constraint.evaluate"
TECHNIQUE = "pre/postconditions on the real evaluate methods, VCs generated from their AST by symbolic execution and discharged by z3; counter-models replayed on the real functions; bounded differential as stand-in for the text/document route"
EXPLANATION = "C08: P obligations prove each constraint kind's verdict against a spec function from the property text, conflict detection and fail-fast chain evaluation; B obligations run chain texts and schema documents through the real code against an independent reference."
ASSUMPTIONS = [
    "A-float: finite floats are exact reals; comparisons with NaN are false; float(str) is an uninterpreted partial function",
    "A-eq: == on heap objects is an uninterpreted reflexive relation; const values are atoms (they come from _parse_atom)",
    "A-datetime: datetime.fromisoformat is an uninterpreted predicate; A-re: pattern.match is an uninterpreted predicate per pattern text",
    "chain length: the P obligations cover chains of <= 3 (quick) / <= 4 (thorough) members with fully symbolic members — the property's own bound",
    "ENUM contract assumes distinct allowed values; REGEX contract is stated for one representative anchored pattern (match is uninterpreted)",
]
TRUSTED_BASE = ["z3 4.x/5.x", "verif.pyvc symbolic executor (encoder cross-check: every counter-model is replayed on the real function)"]


def _member(i):
    return lambda: CC.MEMBER_CONTRACTS[i]


def obligations(ctx: Ctx):
    P = PROPERTY
    obs = []
    for i, c in enumerate(CC.MEMBER_CONTRACTS):
        kind = c.qualname.split(".")[0]
        obs.append(contract_ob(f"{P}.P{i + 1}.{kind}", f"{kind}.evaluate follows the documented meaning", _member(i), f"contracts.constraints:MEMBER_CONTRACTS[{i}]"))
    for n in range(0, 5):
        obs.append(contract_ob(f"{P}.P14.n{n}", f"detect_conflicts non-empty iff conflict(chain), {n} members", (lambda n=n: CC.detect_conflicts_contract(n)), f"contracts.constraints:detect_conflicts_contract({n})", thorough_only=(n >= 4)))
        obs.append(contract_ob(f"{P}.P15.n{n}", f"chain.evaluate valid iff no conflict and every member accepts, {n} members", (lambda n=n: CC.chain_evaluate_contract(n)), f"contracts.constraints:chain_evaluate_contract({n})", thorough_only=(n >= 4)))
    obs.append(contract_ob(f"{P}.P17", "_parse_atom (parameters of CONST / ENUM / RANGE / LENGTH in chain texts): a bare word without decimal point or exponent letter is an int or the word itself, never a float (INF, NaN are words)", (lambda: CC.PARSE_ATOM), "contracts.constraints:PARSE_ATOM"))
    from contracts import validator_doc as VD

    obs.append(contract_ob(f"{P}.P16", "document level: one iteration of the present-fields loop of Validator._validate_section records an Assignment child under its key whatever its value (null, false, empty included)", (lambda: VD.PRESENT_FIELDS_STEP), "contracts.validator_doc:PRESENT_FIELDS_STEP"))
    from props import framesobs as _FO

    _closure = ["octave_mcp.core.validator:Validator.validate", "octave_mcp.core.schema_extractor:extract_schema_from_document", "octave_mcp.core.constraints:ConstraintChain.parse", "octave_mcp.core.constraints:ConstraintChain.evaluate"]
    obs.append(Ob(f"{P}.F1.state", "F", "a verdict is a function of the schema text and the document of THIS call: the closure of the schema extractor, the chain reader and the validator writes no process state (module-level objects such as shared default policies, memoised mutable objects) that a later call could read", _closure, _FO.ob_no_effects(_closure, ("global_write",))))
    obs.append(Ob(f"{P}.F1.escape", "F", "no function in that closure hands out a mutable module-level object (a shared default PolicyDefinition) that a later schema extraction or validation could edit", _closure, _FO.ob_no_global_escape(_closure, {"octave_mcp.schemas.loader:get_builtin_schema": "hands out the packaged SchemaDefinition objects; their consumers (the validator closure) are proved not to store through their parameters (C09.F1.assigns)", "octave_mcp.mcp.compile_grammar:CompileGrammarTool.execute": "the response envelope carries the module's USAGE_HINTS table (str -> str) by reference; execute is an entry point - nothing in the package receives its result, and the server serialises it"})))
    obs.append(Ob(f"{P}.F1.memo", "F", "memoised functions in that closure are keyed by arguments whose equality implies they are indistinguishable (True == 1 == 1.0 must not share an entry)", _closure, _FO.ob_memo_keys(_closure)))
    obs.append(Ob(f"{P}.B1", "B", "chain texts x values through the real parse+evaluate against an independent reference", ["octave_mcp.core.constraints:ConstraintChain.parse", "octave_mcp.core.constraints:ConstraintChain.evaluate"], C08_b.ob_chains, timeout=3000))
    obs.append(Ob(f"{P}.B2", "B", "schema documents x instance documents through the real parser, extractor and Validator", ["octave_mcp.core.validator:Validator.validate", "octave_mcp.core.schema_extractor:extract_schema_from_document"], C08_b.ob_docs, timeout=3000))
    return obs
