"""C16.B1 — bounded: fault injection and kill points at every file-system call boundary of the real write paths."""
from __future__ import annotations

from verif.bounded import fsharness as F
from verif.common import Ctx, Outcome, Witness

# labels of the harness that are not C16 clauses (see DESIGN.md): the call raised instead of returning (C20),
# a read failure reported as a hash mismatch (still an error, file untouched), CAS on an absent target (C17)
NOT_C16 = ("exception_escaped", "spurious_hash_mismatch", "cas_absent_target_written")


def replay(scenario: str, mode: str, k, errno: str | None):
    scn = next(s for s in F.scenarios() if s["name"] == scenario)
    r = F.sweep(scn, pairs=isinstance(k, list), cores=4)
    hits = [v for v in r["violations"] if v["mode"] == mode and v["k"] == k and v["errno"] == errno and v["what"].split(":", 1)[0] not in NOT_C16]
    return bool(hits), (hits[0]["what"] if hits else "no violation at this point any more")


def ob_b1(ctx: Ctx) -> Outcome:
    wits, seen = [], set()
    n = 0
    per = {}
    info: dict[str, int] = {}
    herr = []
    for scn in F.scenarios():
        r = F.sweep(scn, pairs=ctx.thorough and scn["name"] in ("wt_overwrite_hashok", "wt_new_nohash", "wt_changes_nohash", "wt_normalize_nohash", "at_overwrite_hashok", "wt_missing_parent"), cores=ctx.cores)
        n += r["evaluations"]
        per[scn["name"]] = r["n_calls"]
        herr += r["harness_errors"]
        for lab, c in r["classes"].items():
            info[lab] = info.get(lab, 0) + c
        for v in r["violations"]:
            lab = v["what"].split(":", 1)[0]
            if lab in NOT_C16:
                continue
            key = f"{lab}|{scn['name']}|{v['at']}"
            if key in seen:
                continue
            seen.add(key)
            wits.append(Witness(what=f"{scn['name']} {v['mode']} at {v['at']} {v['errno'] or ''}: {v['what'][:300]}", input={"scenario": scn["name"], "mode": v["mode"], "k": v["k"], "errno": v["errno"], "calls": v["calls"][-6:]}, key=key, replay={"runner": "props.C16_b:replay", "args": {"scenario": scn["name"], "mode": v["mode"], "k": v["k"], "errno": v["errno"]}}, confirmed=True))
    if herr:
        return Outcome("crashed", "fault harness", [], "harness errors: " + "; ".join(herr[:3]), {})
    extra = dict(
        bound=f"22 scenarios (new file, overwrite, changes, normalize; without / with correct / with stale base_hash; missing parent directories; read-only file; corrections_only; atomic_write_octave new / overwrite / missing parent / read-only), every counted file-system call of the trace (exists/stat/open/read/close/mkdir/mkstemp/fchmod/fdopen/write/flush/fsync/unlink/replace; {per}) as: injected OSError x {list(F.ERRNOS)}, process kill before and after" + ("; pairs of faults for six scenarios" if ctx.thorough else "") + "; oracles: target old-or-new bytes, error => target byte-identical and no new entry beside it, success => bytes hash to canonical_hash and mode bits kept",
        evaluations=n,
        distinct_nontrivial=n,
        rule="a case is one (scenario, fault point, errno | kill side) run in a forked child; distinct by construction",
        harness_classes=info,
    )
    if wits:
        return Outcome.refuted("fault harness on the real write paths", wits[:40], **extra)
    return Outcome.ok("fault harness on the real write paths", **extra)


ob_b1.wants_all_cores = True
