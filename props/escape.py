"""Exception-escape contract over the readers' call closure (C20.F5) and recursion cycles (C20.F6).

raises(f) - the set of exception classes that may leave f - is computed bottom-up over the package call graph
(verif.frames: resolved calls incl. constructors -> __init__/__post_init__, function-local imports):

    explicit      `raise X(...)` / `raise X` / a bare re-raise inside `except X`
    library       calls of a library function with a NON-STATIC argument, from the table LIB_RAISES below
                  (what that function is documented / observed to raise on hostile input)
    propagated    raises(g) for every resolved callee g
    minus         whatever an enclosing `try` of the site catches (class hierarchy: real built-in classes, package
                  classes by their AST bases)

Contract: raises(reader entry) contains only the reader's own error classes. Everything a Python expression can raise
implicitly (IndexError, KeyError, AttributeError, TypeError on a wrong-typed operand ...) is OUTSIDE this contract - it
is explored by the bounded tier - and the table is an assumption about the library, listed in the evidence.
"""
from __future__ import annotations

import ast
import builtins
import re as _re

from verif.frames.analysis import package

LIB_RAISES = {
    "re.compile": ("re.error", "OverflowError", "RecursionError"),
    "int": ("ValueError",),
    "float": ("ValueError",),
    "chr": ("ValueError", "OverflowError"),
    "next": ("StopIteration",),  # next(it) without a default
    "max": ("ValueError",),  # of a possibly empty iterable, without default=
    "min": ("ValueError",),
    "json.loads": ("ValueError", "RecursionError"),
    "yaml.safe_load": ("yaml.YAMLError", "RecursionError"),
    "datetime.fromisoformat": ("ValueError",),
    "date.fromisoformat": ("ValueError",),
    "datetime.strptime": ("ValueError",),
    # the math module converts its argument to a C double first: an int beyond 1.8e308 raises OverflowError
    **{f"math.{f}": ("OverflowError",) for f in ("isfinite", "isnan", "isinf", "fabs", "copysign", "fmod", "frexp", "modf", "ldexp")},
    **{f"math.{f}": ("OverflowError", "ValueError") for f in ("floor", "ceil", "trunc", "sqrt", "log", "log2", "log10", "exp", "pow", "fsum")},
}
EXEMPTED: list[str] = []
_BUILTIN_BASES = {"re.error": ("Exception",), "yaml.YAMLError": ("Exception",)}


def _exc_name(e: ast.AST) -> str | None:
    if isinstance(e, ast.Call):
        e = e.func
    if isinstance(e, (ast.Name, ast.Attribute)):
        return ast.unparse(e)
    return None


class Hierarchy:
    def __init__(self, pkg):
        self.pkg = pkg

    def bases(self, name: str) -> tuple[str, ...]:
        short = name.split(".")[-1]
        if name in _BUILTIN_BASES:
            return _BUILTIN_BASES[name]
        b = getattr(builtins, short, None)
        if isinstance(b, type) and issubclass(b, BaseException):
            return tuple(c.__name__ for c in b.__mro__[1:] if c is not object)
        out: list[str] = []
        for ci in self.pkg.class_by_name.get(short, []):
            for base in ci.node.bases:
                bn = ast.unparse(base)
                out.append(bn)
                out += list(self.bases(bn))
        return tuple(out) or ("Exception",)

    def catches(self, handler_types: list[str] | None, exc: str) -> bool:
        if handler_types is None:  # bare except
            return True
        chain = (exc, exc.split(".")[-1]) + self.bases(exc)
        return any(h in chain or h.split(".")[-1] in chain for h in handler_types)


def _handler_types(h: ast.ExceptHandler) -> list[str] | None:
    if h.type is None:
        return None
    if isinstance(h.type, ast.Tuple):
        return [ast.unparse(e) for e in h.type.elts]
    return [ast.unparse(h.type)]


def _static_arg(call: ast.Call, fn: ast.AST) -> bool:
    """the argument cannot carry input text: a literal, or a loop / comprehension variable ranging over a module-level
    constant table (ALL_CAPS name)"""
    if not call.args:
        return True
    f = ast.unparse(call.func)
    if f == "next":
        return len(call.args) >= 2  # a default makes next() total
    if f in ("max", "min"):
        # total when a default is given or when there are two or more positional operands
        return len(call.args) >= 2 or any(k.arg == "default" for k in call.keywords)
    a = call.args[0]
    if isinstance(a, ast.Constant):
        return True
    if isinstance(a, ast.Name):
        for n in ast.walk(fn):
            if isinstance(n, (ast.For, ast.comprehension)):
                tnames = {x.id for x in ast.walk(n.target) if isinstance(x, ast.Name)}
                if a.id in tnames and isinstance(n.iter, ast.Name) and n.iter.id.isupper():
                    return True
    return False


def _class_of_variable(fi, pkg, var: str, lineno: int) -> str | None:
    """`raise var`: var was bound, shortly before, from <Class>(...) or from a package function all of whose returns are
    <Class>(...) / None, or is the name of an `except <Class> as var` handler"""
    tree = pkg.modules.get(fi.module)
    funcs = {n.name: n for n in ast.walk(tree) if isinstance(n, ast.FunctionDef)} if tree else {}
    for n in ast.walk(fi.node):
        if isinstance(n, ast.ExceptHandler) and n.name == var and n.type is not None and n.lineno <= lineno <= max(getattr(x, "lineno", n.lineno) for x in ast.walk(n)):
            t = _handler_types(n)
            if t and len(t) == 1:
                return t[0]
        if isinstance(n, ast.Assign) and any(isinstance(t, ast.Name) and t.id == var for t in n.targets) and n.lineno < lineno and lineno - n.lineno < 12 and isinstance(n.value, ast.Call):
            f = ast.unparse(n.value.func)
            if f[:1].isupper():
                return f
            g = funcs.get(f)
            if g is not None:
                rets = [r for r in ast.walk(g) if isinstance(r, ast.Return)]
                classes = {ast.unparse(r.value.func) for r in rets if isinstance(r.value, ast.Call)}
                plain = all(r.value is None or (isinstance(r.value, ast.Constant) and r.value.value is None) or isinstance(r.value, ast.Call) for r in rets)
                if rets and plain and len(classes) == 1:
                    return classes.pop()
    return None


def number_text_is_float_literal() -> tuple[bool, str]:
    """the exemption for `float(matched_text)` in the lexer's NUMBER branch rests on a regular inclusion: every string the
    NUMBER table entry matches is a string float() accepts (sign, digits, optional point and digits, optional exponent;
    Unicode decimal digits included on both sides)"""
    from verif.reglang import automata as A
    from verif.reglang import tokmodel
    from verif.reglang.alphabet import alphabet

    al = alphabet()
    pats = [p for p, name in tokmodel.token_patterns() if name == "NUMBER"]
    if len(pats) != 1:
        return False, f"{len(pats)} NUMBER entries in TOKEN_PATTERNS"
    num = A.dfa_regex(pats[0], 0, None, al)
    flt = A.dfa_regex(r"[+-]?(?:\d+\.?\d*|\.\d+)(?:[eE][+-]?\d+)?", 0, None, al)
    bad = num - flt
    if bad.is_empty():
        return True, f"L({pats[0]!r}) is included in the float() literal language"
    return False, f"NUMBER matches {bad.witness_str()!r}, which float() may refuse"


def _number_branch_float(fi, call: ast.Call) -> bool:
    """the call is float(matched_text) / int(matched_text) under `token_type == TokenType.NUMBER` in tokenize"""
    if fi.key != "octave_mcp.core.lexer:tokenize" or not (call.args and isinstance(call.args[0], ast.Name) and call.args[0].id == "matched_text"):
        return False
    for n in ast.walk(fi.node):
        if isinstance(n, ast.If) and ast.unparse(n.test) == "token_type == TokenType.NUMBER" and any(x is call for st in n.body for x in ast.walk(st)):
            return True
    return False


def _sites(fi, pkg):
    """(kind, payload, lineno, enclosing handlers [(types, handler_lineno)]) for every raising site of fi; nested defs excluded"""
    callees_by_line: dict[int, list] = {}
    for g, ln in pkg.callees(fi):
        callees_by_line.setdefault(ln, []).append(g)
    out = []

    def walk(node, tries, in_handler):
        for child in ast.iter_child_nodes(node):
            if isinstance(child, (ast.FunctionDef, ast.AsyncFunctionDef, ast.ClassDef, ast.Lambda)):
                continue
            if isinstance(child, ast.Try):
                hs = [(_handler_types(h), h.lineno) for h in child.handlers]
                for st in child.body:
                    walk_stmt(st, tries + [hs], in_handler)
                for h in child.handlers:
                    for st in h.body:
                        walk_stmt(st, tries, _handler_types(h) or ["BaseException"])
                for st in child.orelse + child.finalbody:
                    walk_stmt(st, tries, in_handler)
                continue
            visit(child, tries, in_handler)
            walk(child, tries, in_handler)

    def walk_stmt(st, tries, in_handler):
        if isinstance(st, ast.Try):
            walk(ast.Module(body=[st], type_ignores=[]), tries, in_handler)
        else:
            visit(st, tries, in_handler)
            walk(st, tries, in_handler)

    def visit(n, tries, in_handler):
        if isinstance(n, ast.Raise):
            if n.exc is None:
                for t in in_handler or []:
                    out.append(("raise", t, n.lineno, tries))
            else:
                nm = _exc_name(n.exc)
                if isinstance(n.exc, ast.Name):
                    nm = _class_of_variable(fi, pkg, n.exc.id, n.lineno) or nm
                if nm:
                    out.append(("raise", nm, n.lineno, tries))
        elif isinstance(n, ast.Call):
            f = ast.unparse(n.func)
            key = f if f in LIB_RAISES else next((k for k in LIB_RAISES if "." in k and f.endswith("." + k.split(".")[-1]) and f.split(".")[0] in (k.split(".")[0], "_" + k.split(".")[0])), None)
            if key and not _static_arg(n, fi.node):
                if key == "float" and _number_branch_float(fi, n) and number_text_is_float_literal()[0]:
                    EXEMPTED.append(f"float(matched_text) at lexer.py:{n.lineno}: {number_text_is_float_literal()[1]}")
                else:
                    for e in LIB_RAISES[key]:
                        out.append(("lib", (key, e), n.lineno, tries))
            for g in callees_by_line.get(n.lineno, []):
                out.append(("call", g.key, n.lineno, tries))

    walk(fi.node, [], None)
    # de-duplicate call sites recorded once per Call node on the same line
    seen = set()
    uniq = []
    for s in out:
        k = (s[0], str(s[1]), s[2], id(s[3]) if s[3] else 0)
        if k not in seen:
            seen.add(k)
            uniq.append(s)
    return uniq


def escape_sets(roots: list[str]):
    """{function key: {exception name: origin text}} for the closure of roots"""
    pkg = package()
    H = Hierarchy(pkg)
    keys: list[str] = []
    for r in roots:
        for k in pkg.reachable(r):
            if k not in keys:
                keys.append(k)
    sites = {k: _sites(pkg.funcs[k], pkg) for k in keys if k in pkg.funcs}
    esc: dict[str, dict[str, str]] = {k: {} for k in sites}

    def uncaught(exc: str, tries) -> bool:
        for hs in reversed(tries):
            for types, _ in hs:
                if H.catches(types, exc):
                    return False
        return True

    changed = True
    rounds = 0
    while changed and rounds < 50:
        changed = False
        rounds += 1
        for k, ss in sites.items():
            mod = k.split(":")[0].split(".")[-1]
            for kind, payload, ln, tries in ss:
                if kind == "raise":
                    cand = {payload: f"raise at {mod}.py:{ln} in {k.split(':')[1]}"}
                elif kind == "lib":
                    cand = {payload[1]: f"{payload[0]}(<input-dependent>) at {mod}.py:{ln} in {k.split(':')[1]}"}
                else:
                    cand = {e: f"{o} <- {k.split(':')[1]}:{ln}" for e, o in esc.get(payload, {}).items()}
                for e, o in cand.items():
                    if e not in esc[k] and uncaught(e, tries):
                        esc[k][e] = o
                        changed = True
    return esc, H, len(keys), sum(len(s) for s in sites.values())


def recursive_components(roots: list[str], cut: tuple[str, ...]):
    """strongly connected components (with a cycle) of the closure's call graph after removing the `cut` functions"""
    pkg = package()
    keys: list[str] = []
    for r in roots:
        for k in pkg.reachable(r):
            if k not in keys:
                keys.append(k)
    graph = {k: sorted({g.key for g, _ in pkg.callees(pkg.funcs[k]) if g.key in keys and g.key not in cut}) for k in keys if k in pkg.funcs and k not in cut}
    index: dict[str, int] = {}
    low: dict[str, int] = {}
    stack: list[str] = []
    on: set[str] = set()
    comps = []
    counter = [0]

    def strong(v):
        work = [(v, iter(graph.get(v, ())))]
        index[v] = low[v] = counter[0]
        counter[0] += 1
        stack.append(v)
        on.add(v)
        while work:
            node, it = work[-1]
            adv = False
            for w in it:
                if w not in index:
                    index[w] = low[w] = counter[0]
                    counter[0] += 1
                    stack.append(w)
                    on.add(w)
                    work.append((w, iter(graph.get(w, ()))))
                    adv = True
                    break
                if w in on:
                    low[node] = min(low[node], index[w])
            if adv:
                continue
            work.pop()
            if work:
                low[work[-1][0]] = min(low[work[-1][0]], low[node])
            if low[node] == index[node]:
                comp = []
                while True:
                    w = stack.pop()
                    on.discard(w)
                    comp.append(w)
                    if w == node:
                        break
                if len(comp) > 1 or node in graph.get(node, ()):
                    comps.append(sorted(comp))

    for v in graph:
        if v not in index:
            strong(v)
    return comps, graph, pkg
