"""C18.B1 — bounded: changes requests through the real octave_write on files."""
from __future__ import annotations

import asyncio
import itertools
import os
import random
import shutil
import tempfile

from verif.bounded.sweep import sweep
from verif.common import Ctx, Outcome, Witness

BASE_DOCS = [
    "===DOC===\nMETA:\n  TYPE::T\n  VERSION::\"1\"\n  KEEP::k\nA::1\nB::two words\nBLK:\n  A::inner\n  C::[x,y,z]\nL::[a,b]\nA2::null\nE::\"\"\n===END===\n",
    "===DOC===\nA::1\nDUP::first\nMID::0\nDUP::second\n§1::S\n  A::deep\nZ::\n```\nraw é\\t\n```\n===END===\n",
    "===DOC===\nMETA:\n  TYPE::T\n---\n// lead\nA::x // trail\nB::[\n  k::v,\n  [1,2]\n]\n===END===\n",
]
KEYS = ["A", "B", "DUP", "NEW_KEY", "L", "Z", "E"]
OPS = [("delete", {"$op": "DELETE"}), ("null", None), ("str", "v w"), ("int", 7), ("float", 1.5), ("bool", True), ("empty", ""), ("list", ["p", 2, None]), ("emptylist", []), ("map", {"k": "v", "n": 1}), ("numtext", "42"), ("reserved", "true")]
META_REQS = [{"META.KEEP": "changed"}, {"META.NEWF": None}, {"META.TYPE": {"$op": "DELETE"}}, {"META": {"VERSION": "2", "ADDED": [1, 2]}}, {"META": {"KEEP": {"$op": "DELETE"}}}]


def _ev(v):
    from octave_mcp.core.emitter import emit_value
    return emit_value(v)


def top_level_lines(text: str) -> list[tuple[str, str]]:
    """[(key or '', chunk of lines)] for the body of a canonical document: a chunk is a top-level node with its children / continuation lines"""
    lines = text.split("\n")
    out = []
    cur_key, cur = None, []
    pending: list[str] = []

    def pending_top_comment_ok(c):
        return False  # a column-0 comment always belongs to the NEXT top-level node (leading comment)

    in_meta = False
    in_zone = False
    for ln in lines:
        if in_zone:
            cur.append(ln)
            if ln.startswith("```"):
                in_zone = False
            continue
        if ln.startswith("```"):
            in_zone = True
            cur.append(ln)
            continue
        if ln.startswith("===") or ln == "---":
            if cur_key is not None:
                out.append((cur_key, "\n".join(cur)))
                cur_key, cur = None, []
            for c in pending:
                out.append(("", c))
            pending = []
            continue
        if ln.startswith("//") and (cur_key is None or not pending_top_comment_ok(cur)):
            pending.append(ln)
            continue
        top = bool(ln) and not ln.startswith((" ", "]", "//"))
        if top:
            if cur_key is not None:
                out.append((cur_key, "\n".join(cur)))
            import re

            m = re.match(r"^(§[^:]*::)?([A-Za-z_][A-Za-z0-9_]*)", ln)
            cur_key = (m.group(2) if m and not m.group(1) else ln) if m else ln
            if ln.startswith("META:"):
                cur_key = "META"
            cur = pending + [ln]
            pending = []
        else:
            if cur_key is None:
                out.append(("", ln))
            else:
                cur.append(ln)
    if cur_key is not None:
        out.append((cur_key, "\n".join(cur)))
    return out


def _one(item):
    from octave_mcp.core.ast_nodes import Assignment, InlineMap, ListValue
    from octave_mcp.core.emitter import emit
    from octave_mcp.core.parser import parse
    from octave_mcp.mcp.write import WriteTool

    di, reqs = item
    d = tempfile.mkdtemp(prefix="vf-c18-")
    try:
        p = os.path.join(d, "f.oct.md")
        canon = emit(parse(BASE_DOCS[di]))
        with open(p, "w", encoding="utf-8") as f:
            f.write(canon)
        for req in reqs:
            before = open(p, encoding="utf-8").read()
            res = asyncio.run(WriteTool().execute(target_path=p, changes=req))
            after = open(p, encoding="utf-8").read()
            if res.get("status") != "success":
                if before != after:
                    return True, f"request {req} failed ({res.get('errors')}) but the file changed", True, item
                continue
            named = set()
            for k in req:
                named.add("META" if k == "META" or k.startswith("META.") else k)
            b = [(k, c) for k, c in top_level_lines(before) if k not in named]
            a = [(k, c) for k, c in top_level_lines(after) if k not in named]
            if b != a:
                diff = next((x for x in zip(b, a) if x[0] != x[1]), (b[-1] if len(b) > len(a) else a[-1],))
                return True, f"request {req} on {before!r}: a key not named in the request changed its canonical lines: {diff}", True, item
            doc = parse(after)
            for k, v in req.items():
                if k == "META" or k.startswith("META."):
                    continue
                vals = [s.value for s in doc.sections if isinstance(s, Assignment) and s.key == k]
                if isinstance(v, dict) and v.get("$op") == "DELETE":
                    if vals:
                        return True, f"DELETE {k}: key still present with {vals!r}", True, item
                elif v is None:
                    if not vals or vals[0] is not None:
                        return True, f"null request on {k}: reads back {vals!r}", True, item
                else:
                    if not vals:
                        return True, f"value request on {k}: key absent afterwards", True, item
                    got = vals[0]
                    if isinstance(v, list):
                        ok = isinstance(got, ListValue) and len(got.items) == len(v)
                    elif isinstance(v, dict):
                        ok = isinstance(got, (InlineMap, ListValue))
                    else:
                        ok = type(got) is type(v) and got == v
                    if not ok:
                        return True, f"value request {k}={v!r}: reads back {got!r} ({type(got).__name__})", True, item
            # META merge: unmentioned META fields kept
            bm, am = parse(before).meta, doc.meta
            for mk, mv in bm.items():
                touched = any(k == f"META.{mk}" or (k == "META" and isinstance(v, dict) and mk in v) for k, v in req.items())
                if not touched and (mk not in am or _ev(am[mk]) != _ev(mv)):
                    return True, f"request {req}: unmentioned META field {mk} changed or dropped ({_ev(mv)} -> {_ev(am.get(mk)) if mk in am else 'absent'})", True, item
    finally:
        shutil.rmtree(d, ignore_errors=True)
    return False, "", True, item


def items(ctx: Ctx):
    for di in range(len(BASE_DOCS)):
        for k in KEYS:
            for _, v in OPS:
                yield (di, ({k: v},))
        for r in META_REQS:
            yield (di, (r,))
        for r in META_REQS:
            yield (di, ({**r, "A": 5},))
    rnd = random.Random(ctx.seed)
    n = 3000 if ctx.thorough else 400
    for _ in range(n):
        di = rnd.randrange(len(BASE_DOCS))
        seq = []
        for _ in range(rnd.randint(2, 3)):
            req = {}
            for _ in range(rnd.randint(1, 2)):
                req[rnd.choice(KEYS)] = rnd.choice(OPS)[1]
            if rnd.random() < 0.3:
                req.update(rnd.choice(META_REQS))
            seq.append(req)
        yield (di, tuple(seq))


def replay(item):
    item = (item[0], tuple(item[1]))
    r = _one(item)
    return r[0], r[1] or "changes touch only the named keys"


def ob_b1(ctx: Ctx) -> Outcome:
    res = sweep(_one, items(ctx), ctx.cores, chunk=20)
    wits = [Witness(what=text[:1000], input=[item[0], list(item[1])], key=("map-value-request|" if any(isinstance(v, dict) and "$op" not in v and not k.startswith("META") for r in item[1] for k, v in r.items()) else "") + f"{item[0]}|{list(item[1])}"[:300], replay={"runner": "props.C18_b:replay", "args": {"item": [item[0], list(item[1])]}}, confirmed=True) for item, text in res["failures"][:40]]
    extra = dict(bound=f"{len(BASE_DOCS)} canonical files (META, nested blocks, duplicate keys, section, zone, comments, multi-line list) x requests on own and fresh top-level keys x {len(OPS)} operations (DELETE, null, values of every kind incl. lists and maps) + META.X / META{{...}} requests, alone and combined; random sequences of 2-3 requests (seed {ctx.seed})",
                 evaluations=res["evaluations"], distinct_nontrivial=res["evaluations"], rule="a case is (file, request sequence); all distinct by construction of the enumeration (random sequences may repeat: counted conservatively as evaluations); non-trivial: all", samples=[[0, [{"A": {"$op": "DELETE"}}]]])
    if wits:
        return Outcome.refuted("real octave_write", wits, **extra)
    return Outcome.ok("real octave_write", **extra)


ob_b1.wants_all_cores = True


# ---- B2: the file a changes request produces is canonical (normalize accepts it and leaves it byte-identical) ----------------
CANON_DOC = "===D===\nMETA:\n  TYPE::X\nA::1\nB:\n  C::2\n===END===\n"
CANON_KEYS = {"plain": ["A", "NEW", "META.X", "X-Y", "X.Y", "é", "B"], "space": ["a b"], "digit": ["1", "9x"], "reserved": ["true", "null", "vs"], "var": ["$V"], "section": ["§1"], "assign": ["K::V"]}
CANON_VALUES = {
    "scalar": [None, "", "x y", 1, 1.5, True, "===END===", "a\nb", "// c", "true", "1", "a::b", "[x]", "§1", "$V", "a->b", "é", -0.0, "\\", '"', "\t"],
    "list": [[], [1, [2, [3]]], [[]], [""], [None], ["a b", "true"]],
    "map": [{"a": 1}, {"a": 1, "b": "x y"}],
    "nested-map": [{"a": {"b": 1}}, {"a": [1, {"d": None}]}, [{"a": {"b": 1}}]],
    "map-odd-key": [{"": 1}, {"a b": 1}, {"1": 1}, {"true": 1}],
    "raw-cr": ["a\rb", ["a\rb"]],
}


def _canon_cases():
    for kf, ks in CANON_KEYS.items():
        for k in ks:
            for vf, vs in CANON_VALUES.items():
                for v in vs:
                    yield kf, k, vf, v


def _canon_one(i: int):
    import asyncio
    import os
    import tempfile

    from octave_mcp.mcp.write import WriteTool

    kf, k, vf, v = list(_canon_cases())[i]
    with tempfile.TemporaryDirectory(prefix="vf-c18-") as td:
        p = os.path.join(td, "t.oct.md")
        with open(p, "w", encoding="utf-8") as f:
            f.write(CANON_DOC)
        r = asyncio.run(WriteTool().execute(target_path=p, changes={k: v}))
        if r.get("status") != "success":
            return None, "refused"
        b1 = open(p, "rb").read()
        r2 = asyncio.run(WriteTool().execute(target_path=p))
        b2 = open(p, "rb").read()
        if r2.get("status") != "success":
            return True, f"changes={{{k!r}: {v!r}}} succeeds and writes {b1!r}, which the next octave_write (normalize) refuses: {[e.get('code') for e in r2.get('errors', [])]}"
        if b1 != b2:
            return True, f"changes={{{k!r}: {v!r}}} writes {b1!r}; normalizing that file rewrites it to {b2!r}"
    return False, "canonical"


def replay_canon(i: int):
    failed, text = _canon_one(i)
    return bool(failed), text


def ob_b2(ctx: Ctx) -> Outcome:
    cases = list(_canon_cases())
    wits, seen, ran = [], set(), 0
    for i, (kf, k, vf, v) in enumerate(cases):
        failed, text = _canon_one(i)
        if failed is None:
            continue
        ran += 1
        key = f"changes-canon|{kf}|{vf}"
        if failed and key not in seen:
            seen.add(key)
            wits.append(Witness(what=text[:700], input={"key": k, "value": repr(v)}, key=key, replay={"runner": "props.C18_b:replay_canon", "args": {"i": i}}, confirmed=True))
    extra = dict(bound=f"{len(cases)} requests: keys {CANON_KEYS} x values of the families {sorted(CANON_VALUES)} on a small document; accepted requests only; the written file is normalized once more and compared byte for byte", evaluations=len(cases), distinct_nontrivial=ran, rule="a case is one request; non-trivial: the tool reports success")
    if ran == 0:
        return Outcome.undecided("real tool on files", "every request was refused")
    if wits:
        return Outcome.refuted("real tool on files", wits, **extra)
    return Outcome.ok("real tool on files", **extra)
