"""C07.B2 — the tools surface the reader's receipts one-to-one (bounded)."""
from __future__ import annotations

import asyncio
import itertools
import collections
import os
import random
import tempfile

from props import docs_b
from verif.bounded import model as M
from verif.bounded.sweep import sweep
from verif.common import Ctx, Outcome, Witness

_CFG: dict = {}


def _one(idx: int):
    from octave_mcp.core.parser import parse_with_warnings
    from octave_mcp.mcp.validate import ValidateTool
    from octave_mcp.mcp.write import WriteTool

    m = docs_b.docs(*_CFG["docs"])[idx]
    feats = docs_b.features(m) & docs_b.KNOWN_FEATURES
    c0 = M.render_canonical(m)
    rng = random.Random(_CFG["seed"] * 7919 + idx)
    texts = [(c0, True)]
    for t, inj in M.render_all_lenient(m, _CFG["lenient"], rng):
        if t != c0 and len(texts) < 1 + _CFG["lenient"]:
            texts.append((t, False))
    d = tempfile.mkdtemp(prefix="vf-c07-")
    fails = []
    try:
        for x, is_canon in texts:
            try:
                _, warns = parse_with_warnings(x)
            except Exception:  # noqa: BLE001
                continue
            norm = collections.Counter((w.get("original"), w.get("normalized"), w.get("line"), w.get("column")) for w in warns if w.get("type") == "normalization")
            lp = collections.Counter((w.get("subtype"), w.get("line"), w.get("column")) for w in warns if w.get("type") == "lenient_parse")
            res = asyncio.run(ValidateTool().execute(content=x, schema="NOPE_SCHEMA"))
            got_norm = collections.Counter((r.get("original"), r.get("normalized"), r.get("line"), r.get("column")) for r in res.get("repairs", []) if isinstance(r, dict) and r.get("type") == "normalization")
            got_lp = collections.Counter((r.get("subtype"), r.get("line"), r.get("column")) for r in res.get("repairs", []) if isinstance(r, dict) and r.get("type") == "lenient_parse")
            if res.get("status") == "success" and (got_norm != norm or got_lp != lp):
                fails.append(f"octave_validate.repairs differ from the reader's receipts: missing {list((norm - got_norm) + (lp - got_lp))[:3]} extra {list((got_norm - norm) + (got_lp - lp))[:3]} | input {x!r}")
            for lenient in (True, False):
                p = os.path.join(d, f"f{idx}.oct.md")
                r2 = asyncio.run(WriteTool().execute(target_path=p, content=x, lenient=lenient, corrections_only=True))
                if r2.get("status") != "success":
                    continue
                cs = r2.get("corrections", [])
                w002 = collections.Counter((c.get("before"), c.get("after"), c.get("line"), c.get("column")) for c in cs if c.get("code") == "W002")
                if w002 != norm:
                    fails.append(f"octave_write(lenient={lenient}).corrections W002 differ from the reader's normalization receipts: missing {list(norm - w002)[:3]} extra {list(w002 - norm)[:3]} | input {x!r}")
                if lenient:
                    lpc = collections.Counter((c.get("line"), c.get("column")) for c in cs if c.get("tier") == "LENIENT_PARSE" and str(c.get("code", "")).startswith(("W_LENIENT", "W_DUPLICATE", "W_CONSTRUCTOR", "W_PATTERN")))
                    want = collections.Counter((w.get("duplicate_line", w.get("line")) if w.get("subtype") == "duplicate_key" else w.get("line"), w.get("column", 0) if w.get("subtype") == "duplicate_key" else w.get("column")) for w in warns if w.get("type") == "lenient_parse")
                    if sum(lpc.values()) != sum(want.values()):
                        fails.append(f"octave_write(lenient).corrections carry {sum(lpc.values())} lenient-parse corrections for {sum(want.values())} reader receipts | input {x!r}")
                if is_canon and not feats:
                    bad = [c for c in cs if c.get("code") == "W002" or str(c.get("code", "")).startswith("W_LENIENT")]
                    if bad:
                        fails.append(f"canonical input reported as rewritten by octave_write(lenient={lenient}): {bad[:2]} | input {x!r}")
    finally:
        import shutil

        shutil.rmtree(d, ignore_errors=True)
    if fails:
        return True, fails[0], True, idx
    return False, "", True, idx


def replay(docs_cfg, lenient, seed, idx):
    _CFG.update(docs=tuple(docs_cfg), lenient=lenient, seed=seed)
    r = _one(idx)
    return r[0], r[1] or "tools surface the receipts one-to-one"


def ob_b2(ctx: Ctx) -> Outcome:
    docs_cfg = (2, 2, ctx.seed, 6000 if ctx.thorough else 1500)
    _CFG.update(docs=docs_cfg, lenient=6 if ctx.thorough else 3, seed=ctx.seed)
    n = len(docs_b.docs(*docs_cfg))
    step = 1 if ctx.thorough else 2
    res = sweep(_one, range(0, n, step), ctx.cores, chunk=20)
    wits = []
    seen = set()
    for idx, text in res["failures"][:500]:
        m = docs_b.docs(*docs_cfg)[idx]
        feats = sorted(docs_b.features(m) & docs_b.KNOWN_FEATURES)
        key = f"{text.split(':', 1)[0][:60]}|{','.join(feats) if feats else 'no-known-feature'}"
        if key in seen:
            continue
        seen.add(key)
        wits.append(Witness(what=text[:1200], input={"doc_index": idx}, key=key, replay={"runner": "props.C07_b:replay", "args": {"docs_cfg": list(docs_cfg), "lenient": _CFG["lenient"], "seed": ctx.seed, "idx": idx}}, confirmed=True))
    extra = dict(bound=f"every {step}. of {n} model documents (canonical + up to {_CFG['lenient']} lenient renderings) through octave_validate, octave_write(lenient) and octave_write(strict), dry run", evaluations=res["evaluations"], distinct_nontrivial=res["distinct"],
                 rule="a case is a model document; distinct by index; non-trivial: all", samples=[M.render_canonical(docs_b.docs(*docs_cfg)[0])], failing_documents=len(res["failures"]))
    if wits:
        return Outcome.refuted("real tools vs reader receipts", wits, **extra)
    return Outcome.ok("real tools vs reader receipts", **extra)


ob_b2.wants_all_cores = True


# ---- B3: brace-for-angle repair of octave_write(lenient): one receipt per occurrence outside strings / comments / zones -------

BRACE_SNIPPETS = ['let s = "origin"; let p = Point{x};', 'Point{x} then "q"', '"a" "b" N{q}', "N{q}", 'say "N{q}" ok', "x = {y}", 'a "unterminated N{q}', "'single' N{q}"]


def brace_cases():
    """(text, expected repairs [(before, after)], protected occurrences that must stay as written)"""
    out = []
    for sn in BRACE_SNIPPETS:
        # the snippet inside a comment, inside a literal zone, inside a quoted string (escaped), and live as a value where applicable
        out.append((f"===D===\nK::v\n// {sn}\nA::ATHENA{{w}}\n===END===\n", [("ATHENA{w}", "ATHENA<w>")], [sn]))
        out.append((f"===D===\nK::v // {sn}\nA::1\n===END===\n", [], [sn]))
        out.append((f"===D===\nZ::\n```\n{sn}\n```\nA::ATHENA{{w}}\n===END===\n", [("ATHENA{w}", "ATHENA<w>")], [sn]))
        out.append((f"===D===\nB:\n  ```py\n  {sn}\n  more {sn}\n  ```\n  K::v\n===END===\n", [], [sn]))
        esc = sn.replace("\\", "\\\\").replace('"', '\\"')
        out.append((f'===D===\nS::"{esc}"\nA::B{{c}}\n===END===\n', [("B{c}", "B<c>")], [esc]))
    out.append(("===D===\nA::X{a}\nL::[Y{b},Z{c}]\nB:\n  C::W{d}\n===END===\n", [("X{a}", "X<a>"), ("Y{b}", "Y<b>"), ("Z{c}", "Z<c>"), ("W{d}", "W<d>")], []))
    out.append(("===D===\nA::X<a>\nL::[Y<b>]\n===END===\n", [], []))
    # a longer fence holding shorter backtick runs (zone content by the lexer's rule), with and without an info tag
    out.append(("===D===\nK::\n````\n```inner\nPoint{x}\n```\nAlso{y}\n````\nLIVE::Foo{z}\n===END===\n", [("Foo{z}", "Foo<z>")], ["Point{x}", "Also{y}"]))
    out.append(("===D===\nK::\n`````md\n```\nA{b}\n````\nC{d}\n`````\nLIVE::Foo{z}\n===END===\n", [("Foo{z}", "Foo<z>")], ["A{b}", "C{d}"]))
    out.append(("===D===\nB:\n  ````\n  ``` x\n  P{q}\n  ````\n  K::R{s}\n===END===\n", [("R{s}", "R<s>")], ["P{q}"]))
    # content lines that LOOK like a fence of the zone's own length but are not one for the lexer (run behind a tab / NBSP / form
    # feed; a run followed by a later backtick): they do not end the zone, so what follows them is still protected
    for look in ("\t```", "\u00a0```", "\x0c```", "```js` is the tag", "\t``` x"):
        out.append((f"===D===\nK::\n```\n{look}\nFOO{{bar}}\n```\nLIVE::Foo{{z}}\n===END===\n", [("Foo{z}", "Foo<z>")], ["FOO{bar}"]))
    out.append(('===D===\nS::"x" // c "y" N{q}\nT::"p" \n// "z" M{r}\nA::K{v}\n===END===\n', [("K{v}", "K<v>")], ['c "y" N{q}', '"z" M{r}']))
    return out


def replay_brace(idx: int):
    text, want, keep = brace_cases()[idx]
    p = _brace_one(text, want, keep)
    return bool(p), p or "one receipt per live occurrence, protected text untouched"


def _brace_one(text: str, want, keep) -> str | None:
    from octave_mcp.mcp.write import WriteTool

    d = tempfile.mkdtemp(prefix="vf-c07-")
    try:
        p = os.path.join(d, "b.oct.md")
        r = asyncio.run(WriteTool().execute(target_path=p, content=text, lenient=True))
        if r.get("status") != "success":
            return f"octave_write(lenient) refuses {text!r}: {[e.get('code') for e in r.get('errors', [])]}"
        got = sorted((c.get("before"), c.get("after")) for c in r.get("corrections", []) if c.get("code") == "W_REPAIR_CANDIDATE")
        if got != sorted(want):
            return f"brace repairs reported {got}, occurrences written outside strings / comments / zones {sorted(want)} | input {text!r}"
        written = open(p, encoding="utf-8").read()
        for k in keep:
            if k not in written:
                return f"protected text {k!r} (string / comment / literal zone) was rewritten: file {written!r} | input {text!r}"
        return None
    finally:
        import shutil

        shutil.rmtree(d, ignore_errors=True)


def ob_b3(ctx: Ctx) -> Outcome:
    cases = brace_cases()
    wits = []
    n = 0
    for i, (text, want, keep) in enumerate(cases):
        n += 1
        p = _brace_one(text, want, keep)
        if p:
            wits.append(Witness(what=p[:700], input={"case": i}, key=f"brace|{'spurious' if 'reported' in p and len(want) < p.count('(') else 'mismatch'}|{i}", replay={"runner": "props.C07_b:replay_brace", "args": {"idx": i}}, confirmed=True))
    # model documents with brace sites through the tool (the readers refuse braces; only the lenient writer repairs them)
    docs_cfg = _CFG.get("docs") or (2, 2, ctx.seed, 1500)
    docs = docs_b.docs(*docs_cfg)
    rng = random.Random(ctx.seed)
    tried = 0
    for idx in range(0, len(docs), 7):
        m = docs[idx]
        if not any(s.kind == "brace" for s in M.lenient_sites(m)):
            continue
        if docs_b.features(m) & docs_b.KNOWN_FEATURES:
            continue
        tried += 1
        for t, inj in itertools.islice(M.render_all_lenient(m, 6, rng, exclude_kinds=frozenset()), 6):
            braces = [(r.original_text, r.replacement_text) for r in inj if r.kind == "brace_annotation"]
            if not braces:
                continue
            n += 1
            want = list(braces)
            p = _brace_one(t, want, [])
            if p and "refuses" not in p:
                wits.append(Witness(what=p[:700], input={"doc_index": idx}, key=f"brace|model|{idx}", confirmed=True))
        if tried >= (200 if ctx.thorough else 40):
            break
    extra = dict(bound=f"{len(cases)} hand-built documents: {len(BRACE_SNIPPETS)} snippets (quoted string before / after a NAME{{q}} form, unterminated quote, single quotes, bare braces) inside a full-line comment, a trailing comment, a literal zone (top-level and indented), a quoted string, plus live occurrences in values / lists / blocks; {tried} model documents with brace sites in up to 6 renderings; octave_write(lenient): W_REPAIR_CANDIDATE receipts == live occurrences, protected text kept in the written file", evaluations=n, distinct_nontrivial=n, rule="a case is one document through octave_write(lenient)")
    if wits:
        return Outcome.refuted("real octave_write(lenient)", wits[:12], **extra)
    return Outcome.ok("real octave_write(lenient)", **extra)
