"""C04 — every scalar survives write-then-read with value and type intact."""
from functools import partial

from props import lexical as LX
from props import C04_b
from verif.common import Ctx, Ob

PROPERTY = "C04"
LEVEL = "other"
LEVEL_TEXT = "lexical half proved for all strings (regular-language and transducer obligations generated from the real needs_quotes / emit_value / TOKEN_PATTERNS / identifier predicates); the reader's handling of a single value token in each position is a bounded exhaustive stand-in"
LEVEL_NOTE = "trusted: CPython re semantics as encoded (cross-checked on all short strings), leftmost-greedy = longest match for the token patterns (A-greedy), output language of str(int)/repr(float) (A-float-repr), unicodedata NFC tables, control skeleton of tokenize checked syntactically + differential B"
TECHNIQUE = "language inclusion / transducer identity over automata extracted from the real regexes and replace chains (writing side, lexer) + pre/postconditions on the real parser functions over concrete token spines with symbolic values (reading side; z3); bounded exhaustive write-then-read for the remaining parser paths"
EXPLANATION = "C04: R obligations decide, for every string, that the text the emitter writes for a scalar re-lexes to the token that carries it back; B obligation runs the real emit+parse on all short strings."
ASSUMPTIONS = [
    "A-greedy: CPython's leftmost-greedy match end equals the longest match for every TOKEN_PATTERNS entry (cross-checked against re on all strings <= 3 over 22 characters)",
    "A-float-repr: str(int) is -?(0|[1-9][0-9]*), repr(finite float) is -?D+.D+ or -?D(.D+)?e[+-]DD+",
    "A-nfc-local: NFC acts within a starter + following combining characters; classes computed from this interpreter's unicodedata",
    "the reader's treatment of one value token per position is explored (B), not proved",
]
TRUSTED_BASE = ["CPython 3.12 re/str/unicodedata", "verif.reglang automata library (cross-checked against re on short strings each thorough run)"]


def obligations(ctx: Ctx):
    P = PROPERTY
    return [
        Ob(f"{P}.F4.frontmatter", "F", "frontmatter stripping cuts and glues on the same literal newline: the body passes through byte for byte", ["octave_mcp.core.parser:_strip_yaml_frontmatter"], LX.ob_frontmatter_split_join),
        Ob(f"{P}.F3.tokens", "F", "tokenize only appends to its token list (one documented in-place % merge): an emitted token is never replaced", LX.FUNCS_LEX, LX.ob_token_stream_frame),
        Ob(f"{P}.R0", "R", "tokenize control skeleton matches the step model", LX.FUNCS_LEX, LX.ob_skeleton),
        Ob(f"{P}.P2", "R", "needs_quotes is a regular decision list; '', control chars, literals are quoted", LX.FUNCS_EMIT, LX.ob_needs_quotes_shape),
        Ob(f"{P}.R1.var", "R", "bare $variables re-lex to one VARIABLE token", LX.FUNCS_EMIT + LX.FUNCS_LEX, partial(LX.ob_var, oid=f"{P}.R1")),
        Ob(f"{P}.R1.ident", "R", "bare identifier-class strings re-lex to one IDENTIFIER token", LX.FUNCS_EMIT + LX.FUNCS_LEX, partial(LX.ob_ident, oid=f"{P}.R1", which="ident")),
        Ob(f"{P}.R1.ann", "R", "bare NAME<qualifier> strings re-lex to one IDENTIFIER token", LX.FUNCS_EMIT + LX.FUNCS_LEX, partial(LX.ob_ident, oid=f"{P}.R1", which="ann")),
        Ob(f"{P}.R1.expr", "R", "bare operator expressions re-lex segment by segment", LX.FUNCS_EMIT + LX.FUNCS_LEX, partial(LX.ob_expr, oid=f"{P}.R1")),
        Ob(f"{P}.R3", "R", "numbers, booleans, null re-lex with their type", LX.FUNCS_EMIT + LX.FUNCS_LEX, partial(LX.ob_literals, oid=f"{P}.R3")),
        Ob(f"{P}.R2.shape", "R", "quoted emission is one single-quoted STRING token", LX.FUNCS_EMIT + LX.FUNCS_LEX, partial(LX.ob_quoted_shape, oid=f"{P}.R2")),
        Ob(f"{P}.R2.inverse", "R", "unescape(escape(v)) == v for every string", LX.FUNCS_EMIT + LX.FUNCS_LEX, partial(LX.ob_escape_inverse, oid=f"{P}.R2")),
        Ob(f"{P}.B1", "B", "exhaustive short strings / numbers x positions x keys through the real emit + strict parse", ["octave_mcp.core.emitter:emit", "octave_mcp.core.parser:parse"], C04_b.ob_b1, timeout=3000),
        Ob(f"{P}.R2.nfc", "R", "emitted scalar text is stable under the reader's NFC pass", LX.FUNCS_EMIT + LX.FUNCS_LEX, partial(LX.ob_nfc_stable, oid=f"{P}.R2")),
    ] + LX.parse_scalar_obs(P)
