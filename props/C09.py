"""C09 — validity is invariant under respelling; validating never alters content."""
from __future__ import annotations

import ast

from props import framesobs
from verif import extract
from verif.common import Ctx, Ob, Outcome, Witness
from verif.frames import envelope as E
from verif.frames.analysis import package

PROPERTY = "C09"
LEVEL = "other"
LEVEL_TEXT = "read-only clause proved by frames: the validator's closure assigns nothing reachable from the document or the schemas and reads no source position; with fix off the object handed to emit is the parsed object and every function it was passed to in between has an empty assigns frame on that parameter (derived from the real execute bodies); invariance under respelling additionally needs P(x1) ≅ P(x2), which is parser behaviour: bounded"
LEVEL_NOTE = "the content-equality premise is bounded (B); frames are a conservative syntactic over-approximation"
TECHNIQUE = "assigns/reads frame inference with call-graph closure (F) + document-flow shape obligation on the real execute bodies + bounded respelling sweep (B)"
EXPLANATION = "C09: F obligations (validator read-only, position-free; fix-off pipelines do not mutate the document); B: schema x instance x respellings x profiles give the same status and (code, field) set, canonical == emit(parse_with_warnings(x)) with fix off, validating twice is the same."
ASSUMPTIONS = ["respellings parse to equal content (C02/C03, bounded)", "A-static as in C06"]
TRUSTED_BASE = ["verif.frames"]

VAL = ["octave_mcp.core.validator:Validator.validate"]
PREFIXES = ("octave_mcp.core.validator:", "octave_mcp.core.routing:", "octave_mcp.core.schema_extractor:", "octave_mcp.core.constraints:")
ACCUMULATORS = {"octave_mcp.core.schema_extractor:_extract_targets_recursive": {"targets"}}


def _calls_with_doc(module: str, qualname: str, var: str = "doc"):
    fn = extract.find_def(module, qualname)
    out = []

    def walk(stmts, guards):
        for st in stmts:
            if isinstance(st, ast.If):
                t = ast.unparse(st.test)
                walk(st.body, guards + [(t, True)])
                walk(st.orelse, guards + [(t, False)])
                continue
            if isinstance(st, ast.Try):
                walk(st.body, guards)
                for h in st.handlers:
                    walk(h.body, guards)
                walk(st.orelse, guards)
                walk(st.finalbody, guards)
                continue
            if isinstance(st, (ast.For, ast.While, ast.With)):
                walk(st.body, guards)
                continue
            for n in ast.walk(st):
                if isinstance(n, ast.Call):
                    args = list(n.args) + [k.value for k in n.keywords]
                    if any(isinstance(a, ast.Name) and a.id == var for a in args):
                        out.append((ast.unparse(n.func), list(guards), n.lineno))
                if isinstance(n, (ast.Attribute, ast.Subscript)) and isinstance(n.ctx, ast.Store):
                    base = n
                    while isinstance(base, (ast.Attribute, ast.Subscript)):
                        base = base.value
                    if isinstance(base, ast.Name) and base.id == var:
                        out.append(("STORE:" + ast.unparse(n), list(guards), n.lineno))
    walk(fn.body, [])
    return out


READONLY_CALLEES = {
    "_count_literal_zones": "octave_mcp.core.validator:_count_literal_zones",
    "validator.validate": "octave_mcp.core.validator:Validator.validate",
    "validator_for_repair.validate": "octave_mcp.core.validator:Validator.validate",
    "emit": "octave_mcp.core.emitter:emit",
    "extract_structural_metrics": "octave_mcp.mcp.write:extract_structural_metrics",
}


def _callee_readonly(key: str) -> list[str]:
    p = package()
    bad = []
    for k in p.reachable(key):
        f = p.funcs.get(k)
        if not f or not k.startswith(PREFIXES + ("octave_mcp.core.emitter:", "octave_mcp.mcp.write:extract_structural_metrics")):
            continue
        for s in f.stores:
            roots = {r for r in s.roots if r[0] != "self"}
            if k in ACCUMULATORS:
                roots = {r for r in roots if not (r[0] == "param" and r[1] in ACCUMULATORS[k])}
            if k.startswith("octave_mcp.mcp.write:extract_structural_metrics"):
                roots = {r for r in roots if r[0] != "fresh" and not (r[0] == "param" and r[1] == "nodes") or r[0] == "global"} if False else {r for r in roots if r[0] in ("global",)}
            if {r[0] for r in roots} - {"fresh"}:
                bad.append(f"{k}@L{s.lineno}: {s.what}")
    return bad


WRITE_FIX_GUARDS = ("lenient and schema_def is not None and validation_errors", "lenient and schema_definition is not None and validation_errors", "lenient")
WRITE_REGION_GUARD = "schema_name"


def probe_fix_off(tool_q: str) -> tuple[bool, str]:
    """concrete stand-in when the switch variable is not bound the way the contract expects: repairable and
    unrepairable invalid documents under every profile with the switch omitted and explicitly off must come back as
    plain canonicalisation"""
    import asyncio
    import os
    import tempfile

    from octave_mcp.core.emitter import emit
    from octave_mcp.core.parser import parse_with_warnings
    from props import C10_b

    C10_b._cwd()
    bad = []
    docs = [C10_b.CONTENTS[k] for k in ("valid", "casefold", "bad_enum", "missing_req", "unknown_field", "lenient_valid")]
    if tool_q.startswith("ValidateTool"):
        from octave_mcp.mcp.validate import ValidateTool

        for d in docs:
            plain = emit(parse_with_warnings(d)[0])
            for profile in ("STRICT", "STANDARD", "LENIENT", "ULTRA"):
                for kw in ({}, {"fix": False}):
                    res = asyncio.run(ValidateTool().execute(content=d, schema="RPR", profile=profile, **kw))
                    if res.get("canonical") != plain:
                        bad.append(f"octave_validate(profile={profile}, {kw or 'fix omitted'}) returned {res.get('canonical')!r} for {d!r}; plain canonicalisation is {plain!r}")
    else:
        from octave_mcp.mcp.write import WriteTool

        for d in docs:
            plain = emit(parse_with_warnings(d)[0])
            for kw in ({}, {"lenient": False}):
                with tempfile.TemporaryDirectory(dir=os.getcwd()) as td:
                    target = os.path.join(td, "d.oct.md")
                    res = asyncio.run(WriteTool().execute(target_path=target, content=d, schema="RPR", **kw))
                    if os.path.exists(target):
                        got = open(target, encoding="utf-8").read()
                        if got != plain:
                            bad.append(f"octave_write({kw or 'lenient omitted'}, schema=RPR) wrote {got!r} for {d!r}; plain canonicalisation is {plain!r}")
    return bool(bad), "; ".join(bad[:2]) or "switch off: every probe document came back as plain canonicalisation"


def _switch_binding_problems(tool_mod: str, tool_q: str, names: set[str]) -> list[str]:
    """the repair switch is whatever the caller passed: each switch variable is bound exactly once in the tool,
    by `<name> = params.get("<name>", False)`"""
    fn = extract.find_def(tool_mod, tool_q)
    problems = []
    for nm in sorted(names):
        binds = []
        for n in ast.walk(fn):
            if isinstance(n, (ast.Assign, ast.AnnAssign, ast.AugAssign, ast.NamedExpr)):
                tg = n.targets if isinstance(n, ast.Assign) else [n.target]
                for t in tg:
                    if any(isinstance(x, ast.Name) and x.id == nm for x in ast.walk(t)):
                        binds.append(n)
            elif isinstance(n, (ast.For, ast.With, ast.comprehension)):
                t = getattr(n, "target", None)
                if t is not None and any(isinstance(x, ast.Name) and x.id == nm for x in ast.walk(t)):
                    binds.append(n)
        ok = len(binds) == 1 and isinstance(binds[0], ast.Assign) and ast.unparse(binds[0]) == f"{nm} = params.get('{nm}', False)"
        if not ok:
            problems.append(f"{tool_q}: the switch `{nm}` is bound by {[f'L{b.lineno}: ' + ast.unparse(b)[:80] for b in binds]}, not once from the caller's argument")
    return problems


def ob_fix_off_readonly(tool_mod: str, tool_q: str, fix_guards: tuple[str, ...], region_guard: str | None = None):
    def fn(ctx: Ctx) -> Outcome:
        from verif.common import shape_verdict

        try:
            calls = _calls_with_doc(tool_mod, tool_q)
            switches = set()
            for g in fix_guards:
                switches |= {x.id for x in ast.walk(ast.parse(g, mode="eval")) if isinstance(x, ast.Name)} & {"fix", "lenient"}
            sw_problems = _switch_binding_problems(tool_mod, tool_q, switches)
        except extract.ExtractionError as e:
            return Outcome.undecided("ast-shape", str(e))
        if sw_problems:
            return shape_verdict("frames+ast-shape", sw_problems, lambda: probe_fix_off(tool_q), 1, {"runner": "props.C09:probe_fix_off", "args": {"tool_q": tool_q}})
        if region_guard is not None:
            # only the validation region of the tool (statements under `if <region_guard>:`) is the subject
            calls = [c for c in calls if any(g == region_guard and pos for g, pos in c[1])]
        wits = []
        n = 0
        for callee, guards, ln in calls:
            n += 1
            under_fix = any(g in fix_guards and pos for g, pos in guards)
            if callee.startswith("STORE:"):
                if not under_fix:
                    wits.append(Witness(what=f"{tool_q}@L{ln}: direct store {callee[6:]} outside the repair branch", key=f"{tool_q}:{callee}", input=f"L{ln}"))
                continue
            if under_fix:
                continue
            key = READONLY_CALLEES.get(callee)
            if key is None:
                if callee in ("repair",):
                    wits.append(Witness(what=f"{tool_q}@L{ln}: repair(doc, ...) is reachable with fix/lenient off (guards {guards})", key=f"{tool_q}:repair-unguarded", input=f"L{ln}"))
                elif callee.startswith("self._apply") or callee in ("self._apply_changes", "self._apply_mutations"):
                    continue  # explicit edits requested by the caller (changes / mutations), not validation
                else:
                    wits.append(Witness(what=f"{tool_q}@L{ln}: the parsed document is passed to {callee}(...), which has no read-only contract", key=f"{tool_q}:{callee}", input=f"L{ln}"))
                continue
            bad = _callee_readonly(key)
            for b in bad:
                wits.append(Witness(what=f"{callee} (called at {tool_q}@L{ln} with the document) can mutate its argument: {b}", key=b.split("@")[0], input=b))
        if n == 0:
            return Outcome.undecided("ast-shape", f"{tool_q}: no use of `doc` found")
        if wits:
            return Outcome.refuted("frames+ast-shape", wits, count=n)
        return Outcome.ok("frames+ast-shape", count=n)

    return fn


def obligations(ctx: Ctx):
    P = PROPERTY
    obs = [
        Ob(f"{P}.F1.assigns", "F", "the validator's closure assigns nothing reachable from its parameters or module state", VAL, framesobs.ob_params_not_mutated(VAL, PREFIXES, allow_self=True, allow_params=ACCUMULATORS)),
        Ob(f"{P}.F1.reads", "F", "the validator's closure reads no source position", VAL, framesobs.ob_reads_no_position(VAL + ["octave_mcp.core.constraints:ConstraintChain.evaluate"])),
        Ob(f"{P}.F1.effects", "F", "the validator's verdict depends on no ambient state (clock only in the routing timestamp)", VAL, framesobs.ob_no_effects(VAL, ("global_write", "env", "random", "hash_order", "identity", "fs_write", "subprocess", "await"))),
        Ob(f"{P}.P2.validate", "F", "octave_validate with fix off: the emitted document is the parsed document, never mutated in between", ["octave_mcp.mcp.validate:ValidateTool.execute"], ob_fix_off_readonly("octave_mcp.mcp.validate", "ValidateTool.execute", ("fix",))),
        Ob(f"{P}.P3.write", "F", "octave_write with lenient off: schema validation does not alter the document that is emitted", ["octave_mcp.mcp.write:WriteTool.execute"], ob_fix_off_readonly("octave_mcp.mcp.write", "WriteTool.execute", WRITE_FIX_GUARDS, region_guard=WRITE_REGION_GUARD)),
    ]
    obs.append(Ob(f"{P}.F3.tool", "F", "validating twice gives the same answer: the ValidateTool / WriteTool objects carry nothing from one call to the next (no method in the closure of execute stores through self), so a fix=true call cannot change what the next fix=false call on the same text returns", ["octave_mcp.mcp.validate:ValidateTool.execute", "octave_mcp.mcp.write:WriteTool.execute"], framesobs.ob_tool_stateless(("validate", "write"))))
    try:
        from props import C09_b

        obs.append(Ob(f"{P}.B2", "B", "schema with FRONTMATTER requirements: x, canonical(x), canonical(canonical(x)) get the same status and (code, field) set", VAL + ["octave_mcp.mcp.validate:ValidateTool.execute", "octave_mcp.core.emitter:emit"], C09_b.ob_b2, timeout=3000))
        obs.append(Ob(f"{P}.B1", "B", "schema x instance x respellings x profiles: same status and (code, field) set; fix off: canonical == emit(parse); twice == once", VAL + ["octave_mcp.mcp.validate:ValidateTool.execute"], C09_b.ob_b1, timeout=3000))
    except ImportError:
        pass
    from props import lexical as _LX

    obs += _LX.emit_layout_obs(P)
    return obs
