"""Reading side of scalar fidelity, on the real parser.

`Parser.parse_value`, `Parser.parse_list` and `Parser.parse_section` are executed symbolically - the whole real
functions with everything they call (`current`, `peek`, `advance`, `expect`, `parse_list_item`, `_check_deep_nesting`,
`_try_parse_holographic`, the inline-map validators ...) - on token lists whose SPINE (the token types) is concrete and
whose VALUES are symbolic. Each contract therefore holds for every value the lexer can put into those tokens:

  standalone(kind, follow)   parse_value on a scalar token followed by a line end / comma / closing bracket / end of input
                             returns the token's value object itself and consumes exactly that token
  assignment(kind)           parse_section on  KEY :: <scalar> NEWLINE  returns Assignment(key = the key token's text,
                             value = the scalar token's value)
  list_of(kinds)             parse_list on  [ v1 , v2 ... ]  returns ListValue(items = [the tokens' values in order])
  inline_map(kind)           parse_list on  [ KEY :: v ]  returns ListValue([InlineMap({key text: the token's value})])
  assignment_list(k1, k2)    KEY :: [ v1 , v2 ] NEWLINE  composes the two
  meta_field(kind)           parse_meta_block on  META : NEWLINE INDENT KEY :: <scalar> NEWLINE  returns {key text: the value}
  block_child(kind)          parse_section on  NAME : NEWLINE INDENT KEY :: <scalar> NEWLINE  returns Block(NAME, [Assignment])
  document(kind)             parse_document on  ===DOC=== / KEY :: <scalar> / ===END===  returns Document(name, [Assignment])

Together with the R obligations on the lexer (the text emitted for an int / float / boolean / null / quoted or bare
string re-lexes, in every left context, to ONE token of that type carrying that value) this closes the reading half of
C02 / C04 (and the value-typing step of C13) for scalars in assignment, list-item and inline-map-value position: the
value in the tree is the value in the token is the value that was written.

Assumed, not proved here: NUMBER tokens carry an int or a float (what `int(text)` / `float(text)` return in the lexer's
NUMBER branch - pinned by the R literal obligations), the nesting depth on entry is below the hard limit of 100.
"""
from __future__ import annotations

import z3

from verif.pyvc import spec as S
from verif.pyvc import val as V
from verif.pyvc import verify as VF

LEXER = "octave_mcp.core.lexer"
PARSER = "octave_mcp.core.parser"

FOLLOW = {"NEWLINE": "\n", "COMMA": ",", "LIST_END": "]", "EOF": None}
KINDS = ("NUMBER", "STRING", "BOOLEAN", "NULL", "IDENTIFIER", "VARIABLE")
_VALUE = {"NUMBER": VF.AnyVal, "STRING": VF.Str, "BOOLEAN": VF.Bool, "NULL": lambda: VF.Const(None), "IDENTIFIER": VF.Str, "VARIABLE": VF.Str, "COMMENT": VF.Str}
_FIXED = {"LIST_START": "[", "LIST_END": "]", "COMMA": ",", "ASSIGN": "::", "NEWLINE": "\n", "EOF": None, "BLOCK": ":"}


def _tok(kind: str, value: VF.P, raw: VF.P | None = None):
    return VF.Obj("Token", LEXER, type=VF.EnumConst(LEXER, "TokenType", kind), value=value, line=VF.Int(), column=VF.Int(), normalized_from=VF.Const(None), raw=raw or VF.Const(None))


def _sym(kind: str):
    return _tok(kind, _VALUE[kind](), VF.Str() if kind == "NUMBER" else None)


def _fix(kind: str):
    return _tok(kind, VF.Const(_FIXED[kind]))


def _toks(spine: list) -> list:
    """spine entries: (kind, None) fixed punctuation | (kind, 'sym') symbolic value | (kind, constant) fixed value"""
    out = []
    for k, s in spine:
        if s is None:
            out.append(_fix(k))
        elif s == "sym":
            out.append(_sym(k))
        elif isinstance(s, tuple) and s[0] == "int":
            out.append(_tok(k, VF.Int()))
        elif isinstance(s, tuple) and s[0] == "intval":
            out.append(_tok(k, VF.Const(s[1]), VF.Const(str(s[1]))))
        else:
            out.append(_tok(k, VF.Const(s)))
    return out


def _build_parser(tokens, pos, bracket_depth=0, strict_structure=False, **_ignored):
    from octave_mcp.core.parser import Parser

    p = Parser(tokens, strict_structure=strict_structure)
    p.pos = pos
    p.bracket_depth = bracket_depth
    return p


def _parser(toks: list, nested: bool = True):
    """a Parser in an arbitrary admissible state at position 0 of the given token list"""
    return VF.Obj(
        "Parser",
        PARSER,
        build=_build_parser,
        tokens=VF.FixedList(*toks),
        pos=VF.Const(0),
        bracket_depth=VF.Int() if nested else VF.Const(0),
        strict_structure=VF.Bool(),
        warnings=VF.FixedList(),
        deep_nesting_threshold=VF.Const(5),
        _deep_nesting_warned_at=VF.EmptySet(),
        current_indent=VF.Const(0),
    )


def _concrete_parser(kinds_values: list):
    from octave_mcp.core.lexer import Token, TokenType

    toks = []
    for i, kv in enumerate(kinds_values):
        kind, value = kv[0], kv[1]
        toks.append(Token(TokenType[kind], value, 1, 1 + 3 * i, None, kv[2] if len(kv) > 2 else None))
    return _build_parser(toks, 0)


def _tk(a, i):
    t = S.attr(a.self, "tokens")
    return S.items(t)[i] if hasattr(t, "items") else t[i]


def _first(a):
    return _tk(a, 0)


def _same(r, v):
    """the returned object IS the token's value (term identity symbolically; identity, or same type and equal, on replay -
    nan is itself)"""
    if S.symbolic(r, v):
        return V.to_val(r) == V.to_val(v)
    return r is v or (type(r) is type(v) and (r == v or (r != r and v != v)))


def _str_is(x, y):
    """x == y for strings, False when x is not a string at all (None, an object)"""
    if x is None or hasattr(x, "fields") or isinstance(x, (list, dict)):
        return False
    return S.str_eq(x, y)


def _cls(r) -> str:
    return getattr(r, "cls", None) or type(r).__name__


def _pre(number_positions: list[int], depth: bool = True):
    def pre(a):
        cs = []
        if depth:
            d = S.attr(a.self, "bracket_depth")
            cs += [d >= 0, d < 99]
        for i in number_positions:
            v = S.attr(_tk(a, i), "value")
            # the lexer never stores anything but int(text) / float(text) in a NUMBER token
            cs.append(S.Or(S.is_int(v), S.is_float(v)))
        return S.And(*cs) if cs else True

    return pre


_NUM_HINTS = ((7, "007"), (0, "00"), (-1, "-01"), (42, "42"), (3.5, "3.50"), (1e10, "1e10"), (float("inf"), "1e999"), (-0.0, "-0.0"), (2**64, str(2**64)))
_STR_HINTS = {"STRING": ("", "007", "true", "a b", "x\ny", "[a]", "// c"), "IDENTIFIER": ("abc", "a.b-c", "NEVER", "REQ", "PATTERN", "vs.", "A<x>", "a/b"), "VARIABLE": ("$x", "$1:name")}


def _hint_values(kind: str):
    if kind == "NUMBER":
        return [(v, rw) for v, rw in _NUM_HINTS]
    if kind in _STR_HINTS:
        return [(v, None) for v in _STR_HINTS[kind]]
    if kind == "BOOLEAN":
        return [(True, None), (False, None)]
    return [(None, None)]


def _hints(spine: list, extra: dict | None = None):
    """one concrete parser per hint value of each symbolic token of the spine (the others at their first hint value)"""
    out = []
    sym_idx = [i for i, (_, s) in enumerate(spine) if s == "sym"]
    for i in sym_idx:
        for v, rw in _hint_values(spine[i][0]):
            def make(i=i, v=v, rw=rw):
                kv = []
                for j, (k, s) in enumerate(spine):
                    if s is None:
                        kv.append((k, _FIXED[k]))
                    elif s != "sym":
                        kv.append((k, s))
                    elif j == i:
                        kv.append((k, v, rw))
                    else:
                        dv, drw = _hint_values(k)[0]
                        kv.append((k, dv, drw))
                return dict(extra or {}, self=_concrete_parser(kv))

            out.append(make)
    return out


def standalone(kind: str, follow: str) -> VF.FunctionContract:
    spine = [(kind, "sym")] + ([(follow, None)] if follow != "EOF" else []) + [("EOF", None)]
    toks = _toks(spine)
    return VF.FunctionContract(
        PARSER,
        "Parser.parse_value",
        label=f"#standalone-{kind}-before-{follow}",
        replay_hints=_hints(spine),
        params={"self": _parser(toks)},
        pre=_pre([0] if kind == "NUMBER" else []),
        posts={
            "value-is-token-value": lambda a, r: _same(r, S.attr(_tk(a, 0), "value")),
            "consumed-exactly-that-token": lambda a, r: S.attr(a.self, "pos") == 1,
        },
        raises=(),
    )


def assignment(kind: str) -> VF.FunctionContract:
    spine = [("IDENTIFIER", "sym"), ("ASSIGN", None), (kind, "sym"), ("NEWLINE", None), ("EOF", None)]
    toks = _toks(spine)
    return VF.FunctionContract(
        PARSER,
        "Parser.parse_section",
        label=f"#KEY::{kind}",
        replay_hints=_hints(spine, extra={"base_indent": 0}),
        params={"self": _parser(toks, nested=False), "base_indent": VF.Const(0)},
        pre=_pre([2] if kind == "NUMBER" else [], depth=False),
        posts={
            "is-assignment": lambda a, r: _cls(r) == "Assignment",
            "key-is-key-token-text": lambda a, r: S.str_eq(S.attr(r, "key"), S.attr(_tk(a, 0), "value")),
            "value-is-token-value": lambda a, r: _same(S.attr(r, "value"), S.attr(_tk(a, 2), "value")),
        },
        raises=(),
    )


def list_of(kinds: tuple) -> VF.FunctionContract:
    spine = [("LIST_START", None)]
    pos = []
    for i, k in enumerate(kinds):
        if i:
            spine.append(("COMMA", None))
        pos.append(len(spine))
        spine.append((k, "sym"))
    spine += [("LIST_END", None), ("NEWLINE", None), ("EOF", None)]
    toks = _toks(spine)
    end = len(spine) - 2
    posts = {
        "is-list": lambda a, r: _cls(r) == "ListValue",
        "item-count": lambda a, r: len(S.items(S.attr(r, "items"))) == len(kinds),
        "consumed-through-the-closing-bracket": lambda a, r: S.attr(a.self, "pos") == end,
        "depth-restored": lambda a, r: S.attr(a.self, "bracket_depth") == S.attr(a.old.self, "bracket_depth"),
    }
    for n, p in enumerate(pos):
        posts[f"item{n}-is-token-value"] = lambda a, r, n=n, p=p: len(S.items(S.attr(r, "items"))) > n and _same(S.items(S.attr(r, "items"))[n], S.attr(_tk(a, p), "value"))
    return VF.FunctionContract(
        PARSER,
        "Parser.parse_list",
        label="#[" + ",".join(kinds) + "]",
        replay_hints=_hints(spine),
        params={"self": _parser(toks)},
        pre=_pre([p for p, k in zip(pos, kinds) if k == "NUMBER"]),
        posts=posts,
        raises=(),
    )


def inline_map(kind: str) -> VF.FunctionContract:
    spine = [("LIST_START", None), ("IDENTIFIER", "sym"), ("ASSIGN", None), (kind, "sym"), ("LIST_END", None), ("NEWLINE", None), ("EOF", None)]
    toks = _toks(spine)

    def the_map(r):
        return S.items(S.attr(r, "items"))[0]

    def pair_value(a, r):
        pairs = S.attr(the_map(r), "pairs")
        if hasattr(pairs, "entries"):  # symbolic dict: concrete-key entries + stores under symbolic keys
            kv = list(pairs.entries.items()) + list(getattr(pairs, "sym_pairs", []))
        else:
            kv = list(pairs.items())
        return [k for k, _ in kv], [v for _, v in kv]

    return VF.FunctionContract(
        PARSER,
        "Parser.parse_list",
        label=f"#[KEY::{kind}]",
        replay_hints=_hints(spine),
        params={"self": _parser(toks)},
        pre=_pre([3] if kind == "NUMBER" else []),
        posts={
            "is-list-of-one-map": lambda a, r: _cls(r) == "ListValue" and len(S.items(S.attr(r, "items"))) == 1 and _cls(the_map(r)) == "InlineMap",
            "one-pair": lambda a, r: len(pair_value(a, r)[0]) == 1,
            "pair-key-is-key-token-text": lambda a, r: len(pair_value(a, r)[0]) == 1 and S.str_eq(pair_value(a, r)[0][0], S.attr(_tk(a, 1), "value")),
            "pair-value-is-token-value": lambda a, r: len(pair_value(a, r)[0]) == 1 and _same(pair_value(a, r)[1][0], S.attr(_tk(a, 3), "value")),
        },
        raises=(),
    )


def assignment_list(k1: str, k2: str) -> VF.FunctionContract:
    spine = [("IDENTIFIER", "sym"), ("ASSIGN", None), ("LIST_START", None), (k1, "sym"), ("COMMA", None), (k2, "sym"), ("LIST_END", None), ("NEWLINE", None), ("EOF", None)]
    toks = _toks(spine)
    return VF.FunctionContract(
        PARSER,
        "Parser.parse_section",
        label=f"#KEY::[{k1},{k2}]",
        inline_depth=8,
        # parse_value -> parse_list -> parse_list_item -> parse_value: the recursion follows the concrete token spine, so it ends
        setup=lambda I: setattr(I, "recursion_ok", {PARSER + ":Parser.parse_value"}),
        replay_hints=_hints(spine, extra={"base_indent": 0}),
        params={"self": _parser(toks, nested=False), "base_indent": VF.Const(0)},
        pre=_pre([p for p, k in ((3, k1), (5, k2)) if k == "NUMBER"], depth=False),
        posts={
            "is-assignment-of-a-list": lambda a, r: _cls(r) == "Assignment" and _cls(S.attr(r, "value")) == "ListValue" and len(S.items(S.attr(S.attr(r, "value"), "items"))) == 2,
            "key-is-key-token-text": lambda a, r: S.str_eq(S.attr(r, "key"), S.attr(_tk(a, 0), "value")),
            "item0-is-token-value": lambda a, r: _same(S.items(S.attr(S.attr(r, "value"), "items"))[0], S.attr(_tk(a, 3), "value")),
            "item1-is-token-value": lambda a, r: _same(S.items(S.attr(S.attr(r, "value"), "items"))[1], S.attr(_tk(a, 5), "value")),
        },
        raises=(),
    )


def _kv(r):
    """(key, value) pairs of a dict result: concrete-key entries plus stores under symbolic keys"""
    if hasattr(r, "entries"):
        return list(r.entries.items()) + list(getattr(r, "sym_pairs", []))
    return list(r.items())


def meta_field(kind: str) -> VF.FunctionContract:
    spine = [("IDENTIFIER", "META"), ("BLOCK", None), ("NEWLINE", None), ("INDENT", 2), ("IDENTIFIER", "sym"), ("ASSIGN", None), (kind, "sym"), ("NEWLINE", None), ("EOF", None)]
    toks = _toks(spine)
    return VF.FunctionContract(
        PARSER,
        "Parser.parse_meta_block",
        label=f"#META.KEY::{kind}",
        replay_hints=_hints(spine),
        params={"self": _parser(toks, nested=False)},
        pre=_pre([6] if kind == "NUMBER" else [], depth=False),
        posts={
            "one-field": lambda a, r: len(_kv(r)) == 1,
            "field-key-is-key-token-text": lambda a, r: len(_kv(r)) == 1 and S.str_eq(_kv(r)[0][0], S.attr(_tk(a, 4), "value")),
            "field-value-is-token-value": lambda a, r: len(_kv(r)) == 1 and _same(_kv(r)[0][1], S.attr(_tk(a, 6), "value")),
        },
        raises=(),
    )


def block_child(kind: str) -> VF.FunctionContract:
    spine = [("IDENTIFIER", "sym"), ("BLOCK", None), ("NEWLINE", None), ("INDENT", 2), ("IDENTIFIER", "sym"), ("ASSIGN", None), (kind, "sym"), ("NEWLINE", None), ("EOF", None)]
    toks = _toks(spine)

    def ch(r):
        return S.items(S.attr(r, "children"))

    return VF.FunctionContract(
        PARSER,
        "Parser.parse_section",
        label=f"#BLOCK:KEY::{kind}",
        inline_depth=8,
        setup=lambda I: setattr(I, "recursion_ok", {PARSER + ":Parser.parse_section"}),  # one level per INDENT of the concrete spine
        replay_hints=_hints(spine, extra={"base_indent": 0}),
        params={"self": _parser(toks, nested=False), "base_indent": VF.Const(0)},
        pre=_pre([6] if kind == "NUMBER" else [], depth=False),
        posts={
            "is-block-with-one-assignment": lambda a, r: _cls(r) == "Block" and len(ch(r)) == 1 and _cls(ch(r)[0]) == "Assignment",
            "block-key-is-key-token-text": lambda a, r: S.str_eq(S.attr(r, "key"), S.attr(_tk(a, 0), "value")),
            "child-key-is-key-token-text": lambda a, r: S.str_eq(S.attr(ch(r)[0], "key"), S.attr(_tk(a, 4), "value")),
            "child-value-is-token-value": lambda a, r: _same(S.attr(ch(r)[0], "value"), S.attr(_tk(a, 6), "value")),
        },
        raises=(),
    )


def document(kind: str) -> VF.FunctionContract:
    """the whole reader below the lexer: ===DOC=== / KEY::<scalar> / ===END==="""
    spine = [("ENVELOPE_START", "DOC"), ("NEWLINE", None), ("IDENTIFIER", "sym"), ("ASSIGN", None), (kind, "sym"), ("NEWLINE", None), ("ENVELOPE_END", "END"), ("NEWLINE", None), ("EOF", None)]
    toks = _toks(spine)

    def sec(r):
        return S.items(S.attr(r, "sections"))

    def pre(a):
        k = S.attr(_tk(a, 2), "value")
        # `META::x` at the top level is refused by the reader (META must be a block): not an accepted input
        return S.And(_pre([4] if kind == "NUMBER" else [], depth=False)(a), S.Not(S.str_eq(k, "META")))

    return VF.FunctionContract(
        PARSER,
        "Parser.parse_document",
        label=f"#DOC[KEY::{kind}]",
        inline_depth=8,
        replay_hints=_hints(spine),
        params={"self": _parser(toks, nested=False)},
        pre=pre,
        posts={
            "is-document-with-one-assignment": lambda a, r: _cls(r) == "Document" and len(sec(r)) == 1 and _cls(sec(r)[0]) == "Assignment",
            "name-is-envelope-name": lambda a, r: S.str_eq(S.attr(r, "name"), "DOC"),
            "key-is-key-token-text": lambda a, r: S.str_eq(S.attr(sec(r)[0], "key"), S.attr(_tk(a, 2), "value")),
            "value-is-token-value": lambda a, r: _same(S.attr(sec(r)[0], "value"), S.attr(_tk(a, 4), "value")),
        },
        raises=(),
    )


# ---- lenient layout freedoms at the parser level (C03): the same tree from a differently laid out token stream ---------
def _indent(name: str):
    return ("INDENT", ("int", name))


def block_child_lenient(kind: str, blank_lines: bool) -> VF.FunctionContract:
    """NAME: / KEY::<scalar> with ANY indentation width n >= 1 (the INDENT token's value is symbolic) and, optionally, blank
    lines after the header and after the child: the same Block as the canonical two-space layout"""
    nl = [("NEWLINE", None)] * (2 if blank_lines else 1)
    spine = [("IDENTIFIER", "sym"), ("BLOCK", None)] + nl + [_indent("n"), ("IDENTIFIER", "sym"), ("ASSIGN", None), (kind, "sym")] + nl + [("EOF", None)]
    toks = _toks(spine)
    kpos = len(nl) + 3
    vpos = kpos + 2

    def ch(r):
        return S.items(S.attr(r, "children"))

    def pre(a):
        n = S.attr(_tk(a, len(nl) + 2), "value")
        return S.And(_pre([vpos] if kind == "NUMBER" else [], depth=False)(a), n >= 1)

    return VF.FunctionContract(
        PARSER,
        "Parser.parse_section",
        label=f"#BLOCK:KEY::{kind}@any-indent" + ("+blank-lines" if blank_lines else ""),
        inline_depth=8,
        setup=lambda I: setattr(I, "recursion_ok", {PARSER + ":Parser.parse_section"}),
        params={"self": _parser(toks, nested=False), "base_indent": VF.Const(0)},
        pre=pre,
        posts={
            "is-block-with-one-assignment": lambda a, r: _cls(r) == "Block" and len(ch(r)) == 1 and _cls(ch(r)[0]) == "Assignment",
            "block-key-is-key-token-text": lambda a, r: S.str_eq(S.attr(r, "key"), S.attr(_tk(a, 0), "value")),
            "child-key-is-key-token-text": lambda a, r: len(ch(r)) == 1 and S.str_eq(S.attr(ch(r)[0], "key"), S.attr(_tk(a, kpos), "value")),
            "child-value-is-token-value": lambda a, r: len(ch(r)) == 1 and _same(S.attr(ch(r)[0], "value"), S.attr(_tk(a, vpos), "value")),
        },
        raises=(),
    )


def list_multiline(k1: str, k2: str) -> VF.FunctionContract:
    """[ NEWLINE INDENT v1 , NEWLINE INDENT v2 NEWLINE INDENT ] with arbitrary indentation widths: the items of the one-line list"""
    spine = [("LIST_START", None), ("NEWLINE", None), _indent("n1"), (k1, "sym"), ("COMMA", None), ("NEWLINE", None), _indent("n2"), (k2, "sym"), ("NEWLINE", None), _indent("n3"), ("LIST_END", None), ("NEWLINE", None), ("EOF", None)]
    toks = _toks(spine)
    return VF.FunctionContract(
        PARSER,
        "Parser.parse_list",
        label=f"#multi-line[{k1},{k2}]",
        params={"self": _parser(toks)},
        pre=_pre([p for p, k in ((3, k1), (7, k2)) if k == "NUMBER"]),
        posts={
            "is-list-of-two": lambda a, r: _cls(r) == "ListValue" and len(S.items(S.attr(r, "items"))) == 2,
            "item0-is-token-value": lambda a, r: len(S.items(S.attr(r, "items"))) == 2 and _same(S.items(S.attr(r, "items"))[0], S.attr(_tk(a, 3), "value")),
            "item1-is-token-value": lambda a, r: len(S.items(S.attr(r, "items"))) == 2 and _same(S.items(S.attr(r, "items"))[1], S.attr(_tk(a, 7), "value")),
            "consumed-through-the-closing-bracket": lambda a, r: S.attr(a.self, "pos") == 11,
        },
        raises=(),
    )


def document_lenient(kind: str, variant: str) -> VF.FunctionContract:
    """===DOC=== / KEY::<scalar> with blank lines around it ('blank'), without ===END=== ('no-end'), or both ('both'):
    the same Document as the canonical layout"""
    nl = [("NEWLINE", None)] * (2 if variant in ("blank", "both") else 1)
    spine = [("ENVELOPE_START", "DOC")] + nl + [("IDENTIFIER", "sym"), ("ASSIGN", None), (kind, "sym")] + nl
    if variant not in ("no-end", "both"):
        spine += [("ENVELOPE_END", "END"), ("NEWLINE", None)]
    spine.append(("EOF", None))
    toks = _toks(spine)
    kpos = 1 + len(nl)
    vpos = kpos + 2

    def sec(r):
        return S.items(S.attr(r, "sections"))

    def pre(a):
        return S.And(_pre([vpos] if kind == "NUMBER" else [], depth=False)(a), S.Not(S.str_eq(S.attr(_tk(a, kpos), "value"), "META")))

    return VF.FunctionContract(
        PARSER,
        "Parser.parse_document",
        label=f"#DOC[KEY::{kind}]@{variant}",
        inline_depth=8,
        params={"self": _parser(toks, nested=False)},
        pre=pre,
        posts={
            "is-document-with-one-assignment": lambda a, r: _cls(r) == "Document" and len(sec(r)) == 1 and _cls(sec(r)[0]) == "Assignment",
            "name-is-envelope-name": lambda a, r: S.str_eq(S.attr(r, "name"), "DOC"),
            "key-is-key-token-text": lambda a, r: len(sec(r)) == 1 and S.str_eq(S.attr(sec(r)[0], "key"), S.attr(_tk(a, kpos), "value")),
            "value-is-token-value": lambda a, r: len(sec(r)) == 1 and _same(S.attr(sec(r)[0], "value"), S.attr(_tk(a, vpos), "value")),
        },
        raises=(),
    )


# ---- further spines: comments, operator expressions, section markers, block targets -------------------------------------
OPS = {"FLOW": "→", "SYNTHESIS": "⊕", "AT": "@", "CONCAT": "⧺", "TENSION": "⇌", "CONSTRAINT": "∧", "ALTERNATIVE": "∨"}


def with_comments(kind: str) -> VF.FunctionContract:
    """===DOC=== / // lead / KEY::<scalar> // trail / ===END===: the comments are attached to the assignment, text untouched"""
    spine = [("ENVELOPE_START", "DOC"), ("NEWLINE", None), ("COMMENT", "sym"), ("NEWLINE", None), ("IDENTIFIER", "sym"), ("ASSIGN", None), (kind, "sym"), ("COMMENT", "sym"), ("NEWLINE", None), ("ENVELOPE_END", "END"), ("NEWLINE", None), ("EOF", None)]
    toks = _toks(spine)

    def sec(r):
        return S.items(S.attr(r, "sections"))

    def pre(a):
        return S.And(_pre([6] if kind == "NUMBER" else [], depth=False)(a), S.Not(S.str_eq(S.attr(_tk(a, 4), "value"), "META")))

    def lead(r):
        lc = S.attr(sec(r)[0], "leading_comments")
        if lc is None:
            return []
        return S.items(lc) if not isinstance(lc, list) else lc

    return VF.FunctionContract(
        PARSER,
        "Parser.parse_document",
        label=f"#DOC[// c / KEY::{kind} // c]",
        inline_depth=8,
        params={"self": _parser(toks, nested=False)},
        pre=pre,
        posts={
            "one-assignment": lambda a, r: _cls(r) == "Document" and len(sec(r)) == 1 and _cls(sec(r)[0]) == "Assignment",
            "value-is-token-value": lambda a, r: len(sec(r)) == 1 and _same(S.attr(sec(r)[0], "value"), S.attr(_tk(a, 6), "value")),
            "leading-comment-is-the-comment-token-text": lambda a, r: len(sec(r)) == 1 and len(lead(r)) == 1 and _str_is(lead(r)[0], S.attr(_tk(a, 2), "value")),
            "trailing-comment-is-the-comment-token-text": lambda a, r: len(sec(r)) == 1 and _str_is(S.attr(sec(r)[0], "trailing_comment"), S.attr(_tk(a, 7), "value")),
            "no-document-trailing-comments": lambda a, r: S.attr(r, "trailing_comments") is not None and len(S.items(S.attr(r, "trailing_comments")) if not isinstance(S.attr(r, "trailing_comments"), list) else S.attr(r, "trailing_comments")) == 0,
        },
        raises=(),
    )


def trailing_comment_after_multiline_list(k1: str, k2: str) -> VF.FunctionContract:
    """KEY :: [ NL v1 , NL v2 NL ] // c  -  the canonical layout of a structured list with an end-of-line comment: the
    comment (on a later line than the key; token lines are symbolic) is still this assignment's trailing comment"""
    spine = [("IDENTIFIER", "sym"), ("ASSIGN", None), ("LIST_START", None), ("NEWLINE", None), _indent("n1"), (k1, "sym"), ("COMMA", None), ("NEWLINE", None), _indent("n2"), (k2, "sym"), ("NEWLINE", None), ("LIST_END", None), ("COMMENT", "sym"), ("NEWLINE", None), ("EOF", None)]
    toks = _toks(spine)

    def its(r):
        return S.items(S.attr(S.attr(r, "value"), "items"))

    return VF.FunctionContract(
        PARSER,
        "Parser.parse_section",
        label=f"#KEY::[multi-line {k1},{k2}] // c",
        inline_depth=8,
        setup=lambda I: setattr(I, "recursion_ok", {PARSER + ":Parser.parse_value"}),
        params={"self": _parser(toks, nested=False), "base_indent": VF.Const(0)},
        pre=_pre([p for p, k in ((5, k1), (9, k2)) if k == "NUMBER"], depth=False),
        posts={
            "is-assignment-of-a-two-item-list": lambda a, r: _cls(r) == "Assignment" and _cls(S.attr(r, "value")) == "ListValue" and len(its(r)) == 2,
            "items-are-token-values": lambda a, r: _cls(r) == "Assignment" and _cls(S.attr(r, "value")) == "ListValue" and len(its(r)) == 2 and S.And(_same(its(r)[0], S.attr(_tk(a, 5), "value")), _same(its(r)[1], S.attr(_tk(a, 9), "value"))),
            "comment-after-the-closing-bracket-is-the-trailing-comment": lambda a, r: _cls(r) == "Assignment" and _str_is(S.attr(r, "trailing_comment"), S.attr(_tk(a, 12), "value")),
        },
        raises=(),
    )


def expression(ops: tuple) -> VF.FunctionContract:
    """KEY :: A op B [op C]  ->  the value is the operand and operator texts concatenated, in order, nothing added"""
    spine = [("IDENTIFIER", "sym"), ("ASSIGN", None), ("IDENTIFIER", "sym")]
    for o in ops:
        spine += [(o, OPS[o]), ("IDENTIFIER", "sym")]
    spine += [("NEWLINE", None), ("EOF", None)]
    toks = _toks(spine)
    idx = list(range(2, 3 + 2 * len(ops)))

    def joined(a):
        vs = [S.attr(_tk(a, i), "value") for i in idx]
        if S.symbolic(*vs):
            return z3.Concat(*[v if V.is_z3(v) else z3.StringVal(v) for v in vs])
        return "".join(vs)

    def pre(a):
        cs = []
        for i in idx[::2]:
            v = S.attr(_tk(a, i), "value")
            cs.append(S.Not(z3.Contains(v, z3.StringVal("<"))) if S.symbolic(v) else "<" not in v)
        return S.And(*cs)

    return VF.FunctionContract(
        PARSER,
        "Parser.parse_section",
        label="#KEY::A" + "".join(OPS[o] + "X" for o in ops),
        inline_depth=8,
        params={"self": _parser(toks, nested=False), "base_indent": VF.Const(0)},
        pre=pre,
        posts={
            "is-assignment": lambda a, r: _cls(r) == "Assignment",
            "value-is-the-tokens-concatenated": lambda a, r: _cls(r) == "Assignment" and S.str_eq(S.attr(r, "value"), joined(a)),
        },
        raises=(),
    )


def section_marker(kind: str) -> VF.FunctionContract:
    """§ <number> :: NAME / indented KEY::<scalar>  ->  Section(section_id = str(number), key = NAME, [Assignment])"""
    spine = [("SECTION", "§"), ("NUMBER", ("intval", 7)), ("ASSIGN", None), ("IDENTIFIER", "sym"), ("NEWLINE", None), ("INDENT", 2), ("IDENTIFIER", "sym"), ("ASSIGN", None), (kind, "sym"), ("NEWLINE", None), ("EOF", None)]
    toks = _toks(spine)

    def ch(r):
        return S.items(S.attr(r, "children"))

    return VF.FunctionContract(
        PARSER,
        "Parser.parse_section",
        label=f"#§7::NAME[KEY::{kind}]",
        inline_depth=8,
        setup=lambda I: setattr(I, "recursion_ok", {PARSER + ":Parser.parse_section"}),
        params={"self": _parser(toks, nested=False), "base_indent": VF.Const(0)},
        pre=_pre([8] if kind == "NUMBER" else [], depth=False),
        posts={
            "is-section-with-one-assignment": lambda a, r: _cls(r) == "Section" and len(ch(r)) == 1 and _cls(ch(r)[0]) == "Assignment",
            "section-id": lambda a, r: _cls(r) == "Section" and S.str_eq(S.attr(r, "section_id"), "7"),
            "section-name-is-name-token-text": lambda a, r: _cls(r) == "Section" and S.str_eq(S.attr(r, "key"), S.attr(_tk(a, 3), "value")),
            "child-key-is-key-token-text": lambda a, r: _cls(r) == "Section" and len(ch(r)) == 1 and S.str_eq(S.attr(ch(r)[0], "key"), S.attr(_tk(a, 6), "value")),
            "child-value-is-token-value": lambda a, r: _cls(r) == "Section" and len(ch(r)) == 1 and _same(S.attr(ch(r)[0], "value"), S.attr(_tk(a, 8), "value")),
        },
        raises=(),
    )


def block_target(kind: str) -> VF.FunctionContract:
    """NAME [ → § TARGET ] : / indented KEY::<scalar>  ->  Block(NAME, target = TARGET, [Assignment])"""
    spine = [("IDENTIFIER", "sym"), ("LIST_START", None), ("FLOW", "→"), ("SECTION", "§"), ("IDENTIFIER", "sym"), ("LIST_END", None), ("BLOCK", None), ("NEWLINE", None), ("INDENT", 2), ("IDENTIFIER", "sym"), ("ASSIGN", None), (kind, "sym"), ("NEWLINE", None), ("EOF", None)]
    toks = _toks(spine)

    def ch(r):
        return S.items(S.attr(r, "children"))

    return VF.FunctionContract(
        PARSER,
        "Parser.parse_section",
        label=f"#NAME[→§T]:[KEY::{kind}]",
        inline_depth=8,
        setup=lambda I: setattr(I, "recursion_ok", {PARSER + ":Parser.parse_section"}),
        params={"self": _parser(toks, nested=False), "base_indent": VF.Const(0)},
        pre=_pre([11] if kind == "NUMBER" else [], depth=False),
        posts={
            "is-block-with-one-assignment": lambda a, r: _cls(r) == "Block" and len(ch(r)) == 1 and _cls(ch(r)[0]) == "Assignment",
            "block-key": lambda a, r: _cls(r) == "Block" and S.str_eq(S.attr(r, "key"), S.attr(_tk(a, 0), "value")),
            "target-is-target-token-text": lambda a, r: _cls(r) == "Block" and S.str_eq(S.attr(r, "target"), S.attr(_tk(a, 4), "value")),
            "child-value-is-token-value": lambda a, r: _cls(r) == "Block" and len(ch(r)) == 1 and _same(S.attr(ch(r)[0], "value"), S.attr(_tk(a, 11), "value")),
        },
        raises=(),
    )


def children_around_comment(host: str, kind: str, shallow: bool = False) -> VF.FunctionContract:
    """a container (NAME: block, or §7::NAME section) with two children and a COLUMN-0 comment line between them (a field
    commented out with `//` at the margin): both children stay children of the container - the second one, indented like the
    first or deeper (both widths symbolic), is NOT re-parented - and the comment leads the second child"""
    head = [("IDENTIFIER", "sym"), ("BLOCK", None)] if host == "block" else [("SECTION", "§"), ("NUMBER", ("intval", 7)), ("ASSIGN", None), ("IDENTIFIER", "sym")]
    h = len(head)
    # shallow: the comment line is indented by m spaces, 1 <= m < n (it carries an INDENT token); otherwise it is at column 0
    cline = ([_indent("m")] if shallow else []) + [("COMMENT", "sym"), ("NEWLINE", None)]
    spine = head + [("NEWLINE", None), _indent("n"), ("IDENTIFIER", "sym"), ("ASSIGN", None), (kind, "sym"), ("NEWLINE", None)] + cline + [_indent("n2"), ("IDENTIFIER", "sym"), ("ASSIGN", None), (kind, "sym"), ("NEWLINE", None), ("EOF", None)]
    toks = _toks(spine)
    sh = 1 if shallow else 0
    i_n, k1, v1, cpos, i_n2, k2, v2 = h + 1, h + 2, h + 4, h + 6 + sh, h + 8 + sh, h + 9 + sh, h + 11 + sh
    want = "Block" if host == "block" else "Section"

    def ch(r):
        return S.items(S.attr(r, "children"))

    def pre(a):
        n = S.attr(_tk(a, i_n), "value")
        n2 = S.attr(_tk(a, i_n2), "value")
        base = S.And(_pre([v1, v2] if kind == "NUMBER" else [], depth=False)(a), n >= 1, n2 >= n)
        if shallow:
            m = S.attr(_tk(a, h + 6), "value")
            return S.And(base, m >= 1, m < n)
        return base

    def lead(c):
        lc = S.attr(c, "leading_comments")
        if lc is None:
            return []
        return S.items(lc) if not isinstance(lc, list) else lc

    return VF.FunctionContract(
        PARSER,
        "Parser.parse_section",
        label=f"#{host}[K1::{kind} / // c " + ("indented less than the children" if shallow else "at column 0") + f" / K2::{kind}]@any-indent",
        inline_depth=8,
        setup=lambda I: setattr(I, "recursion_ok", {PARSER + ":Parser.parse_section"}),
        params={"self": _parser(toks, nested=False), "base_indent": VF.Const(0)},
        pre=pre,
        posts={
            "both-fields-stay-children-of-the-container": lambda a, r: _cls(r) == want and len(ch(r)) == 2 and _cls(ch(r)[0]) == "Assignment" and _cls(ch(r)[1]) == "Assignment",
            "keys-in-order": lambda a, r: len(ch(r)) == 2 and S.And(S.str_eq(S.attr(ch(r)[0], "key"), S.attr(_tk(a, k1), "value")), S.str_eq(S.attr(ch(r)[1], "key"), S.attr(_tk(a, k2), "value"))),
            "values-are-token-values": lambda a, r: len(ch(r)) == 2 and _same(S.attr(ch(r)[0], "value"), S.attr(_tk(a, v1), "value")) and _same(S.attr(ch(r)[1], "value"), S.attr(_tk(a, v2), "value")),
            "comment-leads-the-second-child": lambda a, r: len(ch(r)) == 2 and len(lead(ch(r)[1])) == 1 and _str_is(lead(ch(r)[1])[0], S.attr(_tk(a, cpos), "value")),
            "every-token-consumed": lambda a, r: S.attr(a.self, "pos") == len(toks) - 1,
        },
        raises=(),
    )


# ---- holographic pattern lists: layout tokens never reach the reconstructed pattern (C03) ----------------------------------
def _holo_spine(layout: str):
    """[ "example" ∧ REQ → § TARGET ]  written on one line, one item per line (any indent widths), or with a comment line"""
    core = [("STRING", "sym"), ("CONSTRAINT", "∧"), ("IDENTIFIER", "REQ"), ("FLOW", "→"), ("SECTION", "§"), ("IDENTIFIER", "sym")]
    if layout == "one-line":
        body = core
    elif layout == "multi-line":
        body = [("NEWLINE", None), _indent("n1")] + core + [("NEWLINE", None), _indent("n2")]
    elif layout == "split":
        body = [("NEWLINE", None), _indent("n1")] + core[:3] + [("NEWLINE", None), _indent("n2")] + core[3:] + [("NEWLINE", None)]
    else:  # comment
        body = [("NEWLINE", None), _indent("n1"), ("COMMENT", "sym"), ("NEWLINE", None), _indent("n2")] + core + [("NEWLINE", None), _indent("n3")]
    spine = [("LIST_START", None)] + body + [("LIST_END", None)]
    ex = next(i for i, (k, s_) in enumerate(spine) if k == "STRING")
    tg = max(i for i, (k, s_) in enumerate(spine) if k == "IDENTIFIER" and s_ == "sym")
    return spine, ex, tg


def holographic_reconstruct(layout: str) -> VF.FunctionContract:
    spine, ex, tg = _holo_spine(layout)
    toks = _toks(spine)

    def tk(a, i):
        t = a.token_slice
        return S.items(t)[i] if hasattr(t, "items") and not isinstance(t, list) else t[i]

    def expected(a):
        e, t = S.attr(tk(a, ex), "value"), S.attr(tk(a, tg), "value")
        if S.symbolic(e, t):
            return z3.Concat(z3.StringVal('["'), e, z3.StringVal('"∧REQ→§'), t, z3.StringVal("]"))
        return f'["{e}"∧REQ→§{t}]'

    return VF.FunctionContract(
        PARSER,
        "Parser._reconstruct_pattern_from_tokens",
        label=f"#holographic[{layout}]",
        params={"self": _parser([_fix("EOF")], nested=False), "token_slice": VF.FixedList(*toks)},
        posts={"pattern-is-the-one-line-spelling": lambda a, r: S.str_eq(r, expected(a))},
        raises=(),
    )


HOLO_LAYOUTS = ("one-line", "multi-line", "split", "comment")


def pairs(thorough: bool) -> list[tuple]:
    if thorough:
        return [(a, b) for a in KINDS for b in KINDS]
    return [(KINDS[i], KINDS[(i + 1) % len(KINDS)]) for i in range(len(KINDS))] + [("STRING", "STRING"), ("NUMBER", "NUMBER")]
