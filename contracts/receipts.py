"""Sidecar contracts for the receipt plumbing (C07): parse_with_warnings and WriteTool's mapping functions."""
from __future__ import annotations

import z3

from verif.pyvc import val as V
from verif.pyvc.interp import Opaque, SDict, SList, SObj, STuple, SymSeq
from verif.pyvc.spec import And, Implies, Not, Or, attr, items, str_eq, symbolic
from verif.pyvc.verify import Const, FixedDict, FixedList, FunctionContract, Int, Obj, P, Str

PARSER = "octave_mcp.core.parser"
WRITE = "octave_mcp.mcp.write"


class OpaqueList(P):
    def __init__(self, label):
        self.label = label

    def make(self, I, name):
        s = SymSeq(z3.Function(f"{self.label}.at", z3.IntSort(), V.Val), "val", self.label)
        I.base_assumptions.append(s.length >= 0)
        return s

    def concrete(self, m, sym, ctx):
        return []


def _pww_contract() -> FunctionContract:
    """parse_with_warnings(text) returns (doc, lexer_repairs ++ parser.warnings): nothing dropped, nothing reordered."""
    lexer_repairs = SymSeq(z3.Function("lexer_repairs.at", z3.IntSort(), V.Val), "val", "lexer_repairs")
    warnings = SymSeq(z3.Function("parser.warnings.at", z3.IntSort(), V.Val), "val", "parser.warnings")

    def strip_c(I, self_obj, pos, kw, st):
        yield st, STuple((z3.String("stripped"), Opaque("frontmatter")))

    def tokenize_c(I, self_obj, pos, kw, st):
        yield st, STuple((Opaque("tokens"), lexer_repairs))

    def parser_init_c(I, self_obj, pos, kw, st):
        self_obj.fields["warnings"] = warnings
        self_obj.fields["tokens"] = pos[0] if pos else None
        yield st, None

    def parse_document_c(I, self_obj, pos, kw, st):
        yield st, SObj("Document", {"raw_frontmatter": None, "name": "D"}, fresh_obj=True)

    def post(a, r):
        out = items(r)[1]
        c = getattr(out, "concat_of", None)
        return c is not None and c[0].name == "lexer_repairs" and c[1].name == "parser.warnings" and not out.appended

    def post_doc(a, r):
        d = items(r)[0]
        return isinstance(d, SObj) and d.cls == "Document"

    return FunctionContract(
        PARSER, "parse_with_warnings", {"content": Str()}, {"warnings_are_lexer_then_parser": post, "returns_document": post_doc},
        callee_contracts={f"{PARSER}:_strip_yaml_frontmatter": strip_c, "octave_mcp.core.lexer:tokenize": tokenize_c, f"{PARSER}:Parser.__init__": parser_init_c, f"{PARSER}:Parser.parse_document": parse_document_c},
    )


PARSE_WITH_WARNINGS = _pww_contract()


class WarningDict(P):
    """one parser/lexer warning dict with symbolic type / subtype and payload"""

    def __init__(self, i):
        self.i = i

    def make(self, I, name):
        i = self.i
        d = SDict({"type": z3.String(f"w{i}.type"), "subtype": z3.String(f"w{i}.subtype"), "original": z3.String(f"w{i}.original"), "normalized": z3.String(f"w{i}.normalized"),
                   "result": z3.String(f"w{i}.result"), "line": z3.Int(f"w{i}.line"), "column": z3.Int(f"w{i}.column"), "message": z3.String(f"w{i}.message"), "key": z3.String(f"w{i}.key"),
                   "value": z3.String(f"w{i}.value")}, fresh_obj=False)
        return d

    def concrete(self, m, sym, ctx):
        out = {}
        for k, v in sym.entries.items():
            e = m.eval(v, model_completion=True)
            out[k] = e.as_long() if v.sort() == z3.IntSort() else e.as_string()
        return out


def _d(c, k):
    d = c.entries if isinstance(c, SDict) else c
    return d.get(k, _MISSING)


class _Missing:
    pass


_MISSING = _Missing()


def map_warnings_contract(n: int) -> FunctionContract:
    def post(a, r):
        ws = items(a.warnings)
        cs = items(r)
        # the corrections are exactly, in order, one per normalization / lenient_parse warning
        if symbolic(*[_d(w, "type") for w in ws]):
            # path-wise: count the mapped warnings under this path's conditions
            exp = [z3.If(z3.Or(_d(w, "type") == "normalization", _d(w, "type") == "lenient_parse"), 1, 0) for w in ws]
            return z3.Sum(exp) == len(cs) if exp else len(cs) == 0
        return len(cs) == sum(1 for w in ws if w["type"] in ("normalization", "lenient_parse"))

    def post_norm(a, r):
        ws = items(a.warnings)
        cs = items(r)
        parts = []
        for w in ws:
            is_norm = str_eq(_d(w, "type"), "normalization")
            match = Or(*[And(str_eq(_d(c, "code"), "W002"), _eqv(_d(c, "before"), _d(w, "original")), _eqv(_d(c, "after"), _d(w, "normalized")), _eqv(_d(c, "line"), _d(w, "line")), _eqv(_d(c, "column"), _d(w, "column"))) for c in cs]) if cs else False
            parts.append(Implies(is_norm, match))
        return And(*parts) if parts else True

    def post_no_invented(a, r):
        ws = items(a.warnings)
        cs = items(r)
        parts = []
        for c in cs:
            if "before" in (c.entries if isinstance(c, SDict) else c) and True:
                pass
            src = Or(*[And(_eqv(_d(c, "line"), _d(w, "line")), _eqv(_d(c, "column"), _d(w, "column")) if "column" in (c.entries if isinstance(c, SDict) else c) else True) for w in ws]) if ws else False
            parts.append(src)
        return And(*parts) if parts else True

    return FunctionContract(
        WRITE, "WriteTool._map_parse_warnings_to_corrections", {"self": Obj("WriteTool", WRITE), "warnings": FixedList(*[WarningDict(i) for i in range(n)])},
        {f"one_correction_per_rewrite_warning[n={n}]": post, f"normalization_maps_to_W002_same_text_and_position[n={n}]": post_norm, f"every_correction_has_a_source_warning[n={n}]": post_no_invented},
        call=lambda f, args: args["self"]._map_parse_warnings_to_corrections(args["warnings"]),
    )


def _eqv(x, y):
    if x is _MISSING or y is _MISSING:
        return False
    if symbolic(x, y):
        x2 = x if V.is_z3(x) else (z3.StringVal(x) if isinstance(x, str) else z3.IntVal(x))
        y2 = y if V.is_z3(y) else (z3.StringVal(y) if isinstance(y, str) else z3.IntVal(y))
        if x2.sort() != y2.sort():
            return False
        return x2 == y2
    return x == y


def track_corrections_contract(n: int) -> FunctionContract:
    def post(a, r):
        ws = items(a.tokenize_repairs)
        cs = items(r)
        if symbolic(*[_d(w, "type") for w in ws]):
            exp = [z3.If(_d(w, "type") == "normalization", 1, 0) for w in ws]
            return z3.Sum(exp) == len(cs) if exp else len(cs) == 0
        return len(cs) == sum(1 for w in ws if w["type"] == "normalization")

    def post_fields(a, r):
        ws = items(a.tokenize_repairs)
        cs = items(r)
        parts = []
        for c in cs:
            parts.append(And(str_eq(_d(c, "code"), "W002"), Or(*[And(str_eq(_d(w, "type"), "normalization"), _eqv(_d(c, "before"), _d(w, "original")), _eqv(_d(c, "after"), _d(w, "normalized")), _eqv(_d(c, "line"), _d(w, "line")), _eqv(_d(c, "column"), _d(w, "column"))) for w in ws]) if ws else False))
        return And(*parts) if parts else True

    return FunctionContract(
        WRITE, "WriteTool._track_corrections", {"self": Obj("WriteTool", WRITE), "original": Str(), "canonical": Str(), "tokenize_repairs": FixedList(*[WarningDict(i) for i in range(n)])},
        {f"W002_iff_normalization_record[n={n}]": post, f"W002_carries_the_record[n={n}]": post_fields},
        call=lambda f, args: args["self"]._track_corrections(args["original"], args["canonical"], args["tokenize_repairs"]),
    )


# ---- tokenize: position bookkeeping after a table match (C07: receipts carry the position of the occurrence) -------
# Block: `newline_count = matched_text.count("\n")` + the if/else that updates line / column. Ghosts decompose the
# matched text at its last newline: matched_text == head_ ++ "\n" ++ tail_ with no newline in tail_ (has_nl), else no newline.

from verif.pyvc import loopstep as _LS
from verif.pyvc import spec as S
from verif.pyvc.verify import Bool

LEXER_MOD = "octave_mcp.core.lexer"


def _locate_position_update(fn):
    """in the table loop's `if match:` body: the statements after the last one that touches tokens / repairs and before
    `pos = match.end()` - whatever they look like, they are the position bookkeeping"""
    import ast as _ast

    from verif.extract import ExtractionError as _EE

    for loop in _ast.walk(fn):
        if isinstance(loop, _ast.For) and _ast.unparse(loop.iter) == "compiled_patterns":
            for st in loop.body:
                if isinstance(st, _ast.If) and _ast.unparse(st.test) == "match":
                    body = st.body
                    ends = [k for k, x in enumerate(body) if _ast.unparse(x) == "pos = match.end()"]
                    if len(ends) != 1:
                        raise _EE("tokenize: `pos = match.end()` not found exactly once in the table branch")
                    j = ends[0]
                    i = 0
                    for k in range(j):
                        names = {n.id for n in _ast.walk(body[k]) if isinstance(n, _ast.Name)}
                        if names & {"tokens", "repairs", "token", "bracket_stack"}:
                            i = k + 1
                    return body, i, j
    raise _EE("tokenize: table branch not found")


def _pos_block():
    return _LS.range_function(LEXER_MOD, "tokenize", _locate_position_update, "position_update")


def _pos_pre(a):
    nl = "\n"
    if S.symbolic(a.matched_text, a.head_, a.tail_):
        whole = z3.Concat(a.head_, z3.StringVal(nl), a.tail_)
        return z3.And(a.line >= 1, a.column >= 1, z3.If(a.has_nl, z3.And(a.matched_text == whole, z3.Not(z3.Contains(a.tail_, z3.StringVal(nl)))), z3.Not(z3.Contains(a.matched_text, z3.StringVal(nl)))))
    return a.line >= 1 and a.column >= 1 and ((a.matched_text == a.head_ + nl + a.tail_ and nl not in a.tail_) if a.has_nl else nl not in a.matched_text)


def _pos_ret(r, name, names=("column", "line")):
    return S.items(r)[list(names).index(name)]


POSITION_UPDATE = FunctionContract(
    LEXER_MOD,
    "tokenize",
    label="#position_update",
    step=_pos_block,
    params={"column": Int(), "line": Int(), "matched_text": Str(), "head_": Str(), "tail_": Str(), "has_nl": Bool()},
    pre=_pos_pre,
    posts={
        # a token without a newline stays on its line and moves the column by its length
        "same-line": lambda a, r: S.Implies(S.Not(a.has_nl), S.And(_pos_ret(r, "line") == a.old.line, _pos_ret(r, "column") == a.old.column + S.length(a.matched_text))),
        # a token with newlines moves down by exactly the number of "\n" it contains - nothing else is a line break -
        # and the column is that of the text after its last "\n"
        "newlines-only-count-lf": lambda a, r: S.Implies(a.has_nl, S.And(_pos_ret(r, "line") == a.old.line + S.count(a.matched_text, "\n"), _pos_ret(r, "column") == S.length(a.tail_) + 1)),
    },
    raises=(),
    covers={"with-newline": lambda a, r: a.has_nl, "without": lambda a, r: S.Not(a.has_nl)},
    replay_hints=[
        dict(column=4, line=2, matched_text=t, head_=h, tail_=tl, has_nl=nlf)
        for t, h, tl, nlf in (('"a b"', "", "", False), ('"a\rb"', "", "", False), ('"a\x0cb\x85c"', "", "", False), ('"""x\ny z"""', '"""x', 'y z"""', True), ('"""\n\r\n"""', '"""\n\r', '"""', True), ("abc", "", "", False))
    ],
    z3_first_ms=3000,
)


# ---- C07.P9: the protected-range lookup of the brace repair (nested helper of WriteTool._repair_curly_brace_annotations) ------
from verif.pyvc.verify import IntPairList

WRITE_MOD = "octave_mcp.mcp.write"
_J1, _J2 = z3.Int("sorted.j1"), z3.Int("sorted.j2")


def _is_protected_fn():
    return _LS.nested_function(WRITE_MOD, "WriteTool._repair_curly_brace_annotations", "_is_protected")


def _sorted_starts(p):
    if isinstance(p, SymSeq):
        return z3.ForAll([_J1, _J2], z3.Implies(z3.And(_J1 >= 0, _J1 <= _J2, _J2 < p.length), p.first(_J1) <= p.first(_J2)), patterns=[z3.MultiPattern(p.first(_J1), p.first(_J2))])
    return all(x[0] <= y[0] for x, y in zip(p, p[1:]))


def _covered(a):
    return S.exists_index(a.protected, lambda j, e: S.And(S.items(e)[0] <= a.pos, a.pos < S.items(e)[1]))


IS_PROTECTED = FunctionContract(
    WRITE_MOD,
    "WriteTool._repair_curly_brace_annotations",
    label="#_is_protected",
    step=_is_protected_fn,
    params={"protected": IntPairList(), "pos": Int()},
    # the caller sorts the list (protected.sort()) before the helper is used: starts are non-decreasing
    pre=lambda a: _sorted_starts(a.protected),
    posts={
        # a position is reported protected exactly when some [start, end) range contains it - in particular the early
        # `break` on the sorted list never skips a containing range
        "protected-iff-inside-some-range": lambda a, r: r == _covered(a),
    },
    raises=(),
    covers={"protected": lambda a, r: r, "live": lambda a, r: S.Not(r)},
    replay_hints=[dict(protected=[(0, 5), (3, 9), (20, 25)], pos=p) for p in (0, 4, 5, 8, 9, 19, 20, 24, 25, 30)],
)
