"""Sidecar contracts for octave_mcp.core.projector and the eject converters (C14)."""
from __future__ import annotations

import z3

from verif.pyvc import val as V
from verif.pyvc.interp import Opaque, SDict, SList, SObj, STuple
from verif.pyvc.spec import And, Iff, Implies, Not, Or, symbolic
from verif.pyvc.verify import Const, FixedList, FunctionContract, P, Str

M = "octave_mcp.core.projector"
EJ = "octave_mcp.mcp.eject"


def _a(name, key, value=1):
    return SObj("Assignment", {"key": key, "value": value, "line": 0, "column": 0, "leading_comments": SList([], False), "trailing_comment": None}, fresh_obj=False, name=name)


def _b(name, key, children):
    return SObj("Block", {"key": key, "children": SList(children, False), "target": None, "line": 0, "column": 0, "leading_comments": SList([], False), "trailing_comment": None}, fresh_obj=False, name=name)


class TreeDoc(P):
    """Document[ A1(k1), B1(kb1)[ A2(k2), B2(kb2)[ A3(k3) ], C(comment) ], S(section)[A4], B3(kb3)[] ] — all keys symbolic"""

    def make(self, I, name):
        k = lambda s: z3.String(f"{name}.{s}")  # noqa: E731
        a1, a2, a3, a4 = _a(f"{name}.A1", k("k1")), _a(f"{name}.A2", k("k2")), _a(f"{name}.A3", k("k3")), _a(f"{name}.A4", k("k4"))
        com = SObj("Comment", {"text": "c", "line": 0, "column": 0, "leading_comments": SList([], False), "trailing_comment": None}, fresh_obj=False, name=f"{name}.C")
        b2 = _b(f"{name}.B2", k("kb2"), [a3])
        b1 = _b(f"{name}.B1", k("kb1"), [a2, b2, com])
        sec = SObj("Section", {"section_id": "1", "key": k("ks"), "annotation": None, "children": SList([a4], False), "line": 0, "column": 0, "leading_comments": SList([], False), "trailing_comment": None}, fresh_obj=False, name=f"{name}.S")
        b3 = _b(f"{name}.B3", k("kb3"), [])
        d = SObj("Document", {"name": "D", "meta": SDict({}, False), "sections": SList([a1, b1, sec, b3], False), "has_separator": False, "raw_frontmatter": None, "trailing_comments": SList([], False), "grammar_version": None,
                              "line": 0, "column": 0, "leading_comments": SList([], False), "trailing_comment": None}, fresh_obj=False, name=name)
        return d

    def concrete(self, m, sym, ctx):
        raise NotImplementedError


KEEP = ["STATUS", "RISKS", "DECISIONS"]


def in_keep(key):
    return z3.Or(*[key == z3.StringVal(x) for x in KEEP])


def spec_kept(nodes: list, apply: bool) -> list[tuple]:
    """[(original node, kept condition, expected children spec or None)] — from the property text / docstring:
    a node whose key is kept is kept with ALL descendants; a block whose key is not kept survives iff some
    descendant is kept; non-field nodes (sections, comments) are kept as they are."""
    out = []
    for n in nodes:
        if n.cls == "Assignment":
            out.append((n, True if not apply else in_keep(n.fields["key"]), None))
        elif n.cls == "Block":
            kids = n.fields["children"].items
            if not apply:
                out.append((n, True, spec_kept(kids, False)))
            else:
                # two cases decided by the path: key kept -> all children; else filtered children, kept iff non-empty
                out.append((n, ("block", in_keep(n.fields["key"]), spec_kept(kids, False), spec_kept(kids, True)), None))
        else:
            out.append((n, True, None))
    return out


def _orig(o):
    return getattr(o, "_orig", o.name)


def match(spec: list, got: list) -> object:
    """z3/bool condition: `got` (result nodes) realises `spec`"""
    names = [_orig(g) for g in got]
    parts = []
    order = [n for n in [s[0].name for s in spec] if n in names] == names
    parts.append(order)
    for n, cond, kids in spec:
        present = n.name in names
        g = got[names.index(n.name)] if present else None
        if isinstance(cond, tuple) and cond[0] == "block":
            _, keyk, all_kids, filt_kids = cond
            if present:
                gk = g.fields["children"].items
                # either the key is kept and all children are there, or it is not and the filtered children (non-empty) are there
                parts.append(Or(And(keyk, match(all_kids, gk)), And(Not(keyk), len(gk) > 0, match(filt_kids, gk))))
            else:
                # absent: key not kept and no descendant kept
                none_kept = And(*[Not(_any_kept(s)) for s in filt_kids]) if filt_kids else True
                parts.append(And(Not(keyk), none_kept))
        else:
            parts.append(Iff(cond, present) if symbolic(cond) else (cond == present))
            if present and kids is not None:
                parts.append(match(kids, g.fields["children"].items))
    return And(*parts)


def _any_kept(s) -> object:
    n, cond, kids = s
    if isinstance(cond, tuple) and cond[0] == "block":
        _, keyk, all_kids, filt_kids = cond
        return Or(keyk, *[_any_kept(x) for x in filt_kids]) if filt_kids else keyk
    return cond


def filter_posts():
    def only_removes(a, r):
        return match(spec_kept(a.old.doc.fields["sections"].items, True), r.fields["sections"].items)

    def untouched(a, r):
        return (r is not a.doc) and not any(t[0] in ("store", "append") and str(t[1]).startswith("doc") for t in a.trace)

    def leaves_same_objects(a, r):
        # kept assignments are the SAME objects (no copy, no invention)
        def walk(nodes):
            for n in nodes:
                if n.cls == "Assignment":
                    yield n
                elif "children" in n.fields:
                    yield from walk(n.fields["children"].items)
        orig = {n.name for n in walk(a.old.doc.fields["sections"].items)}
        return all(n.name in orig and not hasattr(n, "_orig") for n in walk(r.fields["sections"].items))

    return {"result_is_the_specified_sub_forest": only_removes, "input_untouched": untouched, "kept_leaves_are_the_source_objects": leaves_same_objects}


FILTER = FunctionContract(M, "_filter_fields", {"doc": TreeDoc(), "keep": Const(None)}, filter_posts(), inline_depth=10,
                          setup=lambda I: setattr(I, "recursion_ok", {f"{M}:_filter_fields.<locals>.filter_recursively"}))


class KeepList(P):
    def make(self, I, name):
        return SList(list(KEEP), fresh_obj=False)

    def concrete(self, m, sym, ctx):
        return list(KEEP)


FILTER.params["keep"] = KeepList()


# ---- project ---------------------------------------------------------------------------------------------------------------
def _emit_c(I, self_obj, pos, kw, st):
    d = st.resolve(pos[0])
    # the contract's `emit(doc)` is the plain canonical emission: a call that passes format options is a different
    # text (the line-based option pass knows nothing about literal zones) and must not satisfy a lossless view's post
    opts = pos[1] if len(pos) > 1 else kw.get("format_options")
    if opts is not None:
        yield st, z3.String(f"emit({d.name}, <format options>)")
        return
    yield st, z3.String(f"emit({d.name})")


def _filter_c(I, self_obj, pos, kw, st):
    d = st.resolve(pos[0])
    keep = kw.get("keep", pos[1] if len(pos) > 1 else None)
    o = SObj("Document", dict(d.fields), fresh_obj=True, name=f"filtered({d.name})")
    o._keep = [x for x in keep.items] if isinstance(keep, SList) else None
    yield st, o


def project_contract(mode) -> FunctionContract:
    def post(a, r):
        f = r.fields
        if mode in ("executive", "developer"):
            keep = ["STATUS", "RISKS", "DECISIONS"] if mode == "executive" else ["TESTS", "CI", "DEPS"]
            return f["lossy"] is True and f["filtered_doc"].name == f"filtered({a.doc.name})" and f["filtered_doc"]._keep == keep and str(f["output"]) == f"emit(filtered({a.doc.name}))" and len(f["fields_omitted"].items) > 0
        return f["lossy"] is False and f["filtered_doc"] is a.doc and not f["fields_omitted"].items and str(f["output"]) == f"emit({a.doc.name})"

    return FunctionContract(M, "project", {"doc": TreeDoc(), "mode": Const(mode)}, {f"mode_{mode}": post}, callee_contracts={"octave_mcp.core.emitter:emit": _emit_c, f"{M}:_filter_fields": _filter_c})


# ---- eject converters ----------------------------------------------------------------------------------------------------------
class ValueShape(P):
    def __init__(self, kind):
        self.kind = kind

    def make(self, I, name):
        def atom(nm):
            v = z3.Const(nm, V.Val)
            I.base_assumptions.append(z3.Not(V.is_VObj(v)))  # str / int / float / bool / None
            return v

        if self.kind == "scalar":
            return atom(name)
        if self.kind == "zone":
            return SObj("LiteralZoneValue", {"content": z3.String("zc"), "info_tag": z3.String("zt"), "fence_marker": "````"}, fresh_obj=False, name=name)
        if self.kind == "holo":
            return SObj("HolographicValue", {"example": "x", "constraints": None, "target": None, "raw_pattern": z3.String("raw"), "tokens": None}, fresh_obj=False, name=name)
        if self.kind == "list":
            inner = SObj("InlineMap", {"pairs": SDict({"k": atom("mv")}, False)}, fresh_obj=False, name=name + ".map")
            zone = SObj("LiteralZoneValue", {"content": z3.String("zc"), "info_tag": None, "fence_marker": "```"}, fresh_obj=False, name=name + ".z")
            return SObj("ListValue", {"items": SList([atom("i0"), inner, SObj("ListValue", {"items": SList([zone], False), "tokens": None}, fresh_obj=False, name=name + ".l2")], False), "tokens": None}, fresh_obj=False, name=name)
        raise ValueError(self.kind)

    def concrete(self, m, sym, ctx):
        raise NotImplementedError


def convert_contract(kind) -> FunctionContract:
    def post(a, r):
        if kind == "scalar":
            return V.is_z3(r) and z3.is_true(z3.simplify(r == a.value)) or (r is a.value)
        if kind == "zone":
            e = r.entries
            return e["__literal_zone__"] is True and e["content"] is a.value.fields["content"] and e["info_tag"] is a.value.fields["info_tag"] and e["fence_marker"] == "````"
        if kind == "holo":
            return r is a.value.fields["raw_pattern"]
        if kind == "list":
            it = r.items
            return len(it) == 3 and str(it[0]) == "i0" and isinstance(it[1], SDict) and list(it[1].entries) == ["k"] and str(it[1].entries["k"]) == "mv" and isinstance(it[2], SList) and isinstance(it[2].items[0], SDict) and it[2].items[0].entries["content"] is a.value.fields["items"].items[2].fields["items"].items[0].fields["content"]
        return False

    return FunctionContract(EJ, "_convert_value", {"value": ValueShape(kind)}, {f"convert_{kind}": post}, setup=lambda I: setattr(I, "recursion_ok", {f"{EJ}:_convert_value"}), inline_depth=8)


# ---- _ast_to_dict: every leaf of the (filtered) document appears at the same path ------------------------------------------------
class DictDoc(P):
    """Document(meta {T: v}, [ A(K1)=v1, B(BK)[ A(K2)=zone, S(§2::SK)[ A(K3)=v3 ] ], S(§1::TOPS)[ A(K4)=v4 ], C ]) — distinct constant keys"""

    def make(self, I, name):
        def atom(nm):
            v = z3.Const(nm, V.Val)
            I.base_assumptions.append(z3.Not(V.is_VObj(v)))
            return v

        zone = SObj("LiteralZoneValue", {"content": z3.String("zc"), "info_tag": None, "fence_marker": "```"}, fresh_obj=False, name=f"{name}.Z")
        sec_in = SObj("Section", {"section_id": "2", "key": "SK", "annotation": None, "children": SList([_a(f"{name}.A3", "K3", atom("v3"))], False)}, fresh_obj=False, name=f"{name}.S2")
        b = _b(f"{name}.B", "BK", [_a(f"{name}.A2", "K2", zone), sec_in])
        sec = SObj("Section", {"section_id": "1", "key": "TOPS", "annotation": None, "children": SList([_a(f"{name}.A4", "K4", atom("v4"))], False)}, fresh_obj=False, name=f"{name}.S1")
        com = SObj("Comment", {"text": "c"}, fresh_obj=False, name=f"{name}.C")
        return SObj("Document", {"name": "D", "meta": SDict({"T": atom("mv")}, False), "sections": SList([_a(f"{name}.A1", "K1", atom("v1")), b, sec, com], False), "has_separator": False, "raw_frontmatter": None,
                                 "trailing_comments": SList([], False), "grammar_version": None}, fresh_obj=False, name=name)

    def concrete(self, m, sym, ctx):
        raise NotImplementedError


def ast_to_dict_posts():
    def leaves(a, r):
        e = r.entries
        try:
            ok = [
                str(e["META"].entries["T"]) == "mv",
                str(e["K1"]) == "v1",
                isinstance(e["BK"], SDict) and isinstance(e["BK"].entries["K2"], SDict) and e["BK"].entries["K2"].entries["content"] is not None and str(e["BK"].entries["K2"].entries["content"]) == "zc",
                str(e["BK"].entries["§2::SK"].entries["K3"]) == "v3",
                str(e["§1::TOPS"].entries["K4"]) == "v4",
            ]
        except (KeyError, AttributeError):
            return False
        return all(ok)

    def nothing_invented(a, r):
        e = r.entries
        return sorted(e.keys()) == sorted(["META", "K1", "BK", "§1::TOPS"]) and sorted(e["BK"].entries.keys()) == ["K2", "§2::SK"] and list(e["§1::TOPS"].entries.keys()) == ["K4"] and list(e["META"].entries.keys()) == ["T"]

    return {"every_leaf_at_its_path": leaves, "no_key_invented": nothing_invented}


AST_TO_DICT = FunctionContract(EJ, "_ast_to_dict", {"doc": DictDoc()}, ast_to_dict_posts(), setup=lambda I: setattr(I, "recursion_ok", {f"{EJ}:_convert_value", f"{EJ}:_convert_block"}), inline_depth=10)
