"""Sidecar contracts for octave_mcp.core.sealer (C15). emit and SHA-256 are uninterpreted:
emit is a function of the document's CONTENT signature (C01.F1: it reads nothing else), sha256 is
an uninterpreted function on strings (A-sha: injective, 64 lower-case hex digits)."""
from __future__ import annotations

import z3

from verif.pyvc import lib
from verif.pyvc import val as V
from verif.pyvc.interp import Opaque, SDict, SEnum, SList, SObj, STuple, SymSeq
from verif.pyvc.spec import And, Iff, Implies, Not, Or, symbolic
from verif.pyvc.verify import Const, FunctionContract, P, Str

M = "octave_mcp.core.sealer"

# content signature: an uninterpreted hash-consing of everything emit reads
Sig = z3.DeclareSort("Sig")
sig_nil = z3.Const("sig_nil", Sig)
sig_cons = z3.Function("sig_cons", z3.IntSort(), Sig, Sig)  # node identity, rest
sig_doc = z3.Function("sig_doc", z3.StringSort(), Sig, Sig, z3.BoolSort(), z3.StringSort(), z3.StringSort(), Sig)  # name, meta, sections, sep, frontmatter, grammar
sig_meta = z3.Function("sig_meta", z3.IntSort(), Sig)
emit_of = z3.Function("emit_of", Sig, z3.StringSort())
node_id = {}


def nid(o) -> z3.ExprRef:
    """identity of a node object (stable across state clones by name)"""
    k = o.name
    if k not in node_id:
        node_id[k] = z3.IntVal(len(node_id) + 1)
    return node_id[k]


def opt_str(x):
    return z3.StringVal("<none>") if x is None else (x if V.is_z3(x) else z3.StringVal(x))


def sections_sig(items) -> z3.ExprRef:
    s = sig_nil
    for o in reversed(list(items)):
        s = sig_cons(nid(o), s)
    return s


def doc_sig(d: SObj) -> z3.ExprRef:
    meta = d.fields["meta"]
    msig = sig_meta(z3.IntVal(hash(tuple(sorted(meta.entries))) % 1000003)) if isinstance(meta, SDict) and not meta.open else sig_meta(z3.IntVal(0))
    if isinstance(meta, SDict):
        msig = getattr(meta, "_sig", None) if getattr(meta, "_sig", None) is not None else sig_meta(z3.IntVal(len(meta.entries)))
    sep = d.fields["has_separator"]
    return sig_doc(opt_str(d.fields["name"]), msig, sections_sig(d.fields["sections"].items), sep if V.is_z3(sep) else z3.BoolVal(bool(sep)), opt_str(d.fields["raw_frontmatter"]), opt_str(d.fields["grammar_version"]))


def _plain_emission_only(a, r):
    """ghost-trace post: the text that is hashed comes from emit(doc) without format options (see emit_contract)"""
    return not any(t and t[0] == "emit_with_format_options" for t in a.trace)


def emit_contract(I, self_obj, pos, kw, st):
    """emit(doc) = emit_of(content signature); needs trailing_comments == [] here (the sealer builds such documents)"""
    d = st.resolve(pos[0])
    # emit_of stands for the PLAIN canonical emission - the function whose injectivity on content C01 / C02 / C05 establish.
    # A call that passes format options runs the line-based option pass on top (trailing-space strip, blank-line and indent
    # normalisation: it knows nothing about literal zones or frontmatter), which is a different, non-injective text:
    # the seal algebra must not go through for it.
    opts = pos[1] if len(pos) > 1 else kw.get("format_options")
    if opts is not None:
        st.trace.append(("emit_with_format_options", getattr(d, "name", "doc")))
        yield st, z3.String("emit_with_format_options")
        return
    tc = d.fields.get("trailing_comments")
    if isinstance(tc, SList) and tc.items:
        yield st, z3.String("emit_with_trailing_comments")
        return
    yield st, emit_of(doc_sig(d))


def is_seal_node(o) -> z3.ExprRef | bool:
    if not (isinstance(o, SObj) and o.cls == "Section"):
        return False
    k = o.fields["key"]
    return (k == z3.StringVal("SEAL")) if V.is_z3(k) else (k == "SEAL")


def _assign(name, key, value):
    return SObj("Assignment", {"key": key, "value": value, "line": 0, "column": 0, "leading_comments": SList([], False), "trailing_comment": None}, fresh_obj=False, name=name)


class DocP(P):
    """Document[ A0, Section(key k1 symbolic, children [..]), Block, Section(key k2 symbolic, children = seal-like assignments) ]"""

    def __init__(self, seal_children: str = "full", with_comments: bool = False):
        self.seal_children = seal_children
        self.with_comments = with_comments

    def make(self, I, name):
        a0 = _assign(f"{name}.A0", z3.String(f"{name}.k0"), z3.Const(f"{name}.v0", V.Val))
        s1 = SObj("Section", {"section_id": "1", "key": z3.String(f"{name}.sk1"), "annotation": None, "children": SList([_assign(f"{name}.S1A", "X", 1)], False)}, fresh_obj=False, name=f"{name}.S1")
        b = SObj("Block", {"key": z3.String(f"{name}.bk"), "children": SList([], False), "target": None}, fresh_obj=False, name=f"{name}.B")
        kids = []
        if self.seal_children == "full":
            kids = [_assign(f"{name}.S2.SCOPE", "SCOPE", "LINES[1,3]"), _assign(f"{name}.S2.ALG", "ALGORITHM", "SHA256"), _assign(f"{name}.S2.HASH", "HASH", z3.String(f"{name}.stored_hash"))]
        elif self.seal_children == "comment":
            kids = [SObj("Comment", {"text": "c"}, fresh_obj=False, name=f"{name}.S2.C")]
        s2 = SObj("Section", {"section_id": "SEAL", "key": z3.String(f"{name}.sk2"), "annotation": None, "children": SList(kids, False)}, fresh_obj=False, name=f"{name}.S2")
        meta = SDict({"TYPE": z3.String(f"{name}.type")}, fresh_obj=False)
        meta._sig = sig_meta(z3.Int(f"{name}.metasig"))
        d = SObj("Document", {"name": z3.String(f"{name}.name"), "meta": meta, "sections": SList([a0, s1, b, s2], False), "has_separator": z3.Bool(f"{name}.sep"), "raw_frontmatter": None,
                              "trailing_comments": SList(["tc"] if self.with_comments else [], False), "grammar_version": z3.String(f"{name}.gv"), "line": 0, "column": 0, "leading_comments": SList([], False), "trailing_comment": None}, fresh_obj=False, name=name)
        return d

    def concrete(self, m, sym, ctx):
        raise NotImplementedError


def _copy_meta_hook(I):
    """dict.copy() keeps the content signature of META"""
    pass


def spec_remove(d: SObj) -> list[tuple]:
    """[(node, kept_condition)] — the non-(Section with key SEAL) members, in order"""
    return [(o, Not(is_seal_node(o)) if symbolic(is_seal_node(o)) else (not is_seal_node(o))) for o in d.fields["sections"].items]


def _same_header(a_doc: SObj, r: SObj):
    same = [
        r.fields["name"] is a_doc.fields["name"] or _eq(r.fields["name"], a_doc.fields["name"]),
        _eq(r.fields["has_separator"], a_doc.fields["has_separator"]),
        _eq(r.fields["grammar_version"], a_doc.fields["grammar_version"]),
        r.fields["raw_frontmatter"] is a_doc.fields["raw_frontmatter"],
        isinstance(r.fields["meta"], SDict) and r.fields["meta"] is not a_doc.fields["meta"] and list(r.fields["meta"].entries.items()) == list(a_doc.fields["meta"].entries.items()),
    ]
    return And(*same)


def _eq(x, y):
    if symbolic(x, y):
        return x == y
    return x == y


def remove_posts():
    def sections_filtered(a, r):
        got = r.fields["sections"].items
        parts = []
        gi = 0
        # on this path every kept-condition is decided by the path condition; the returned list must be
        # exactly the kept members in order
        exp = spec_remove(a.old.doc)
        names = [g.name for g in got]
        for o, keep in exp:
            present = o.name in names
            parts.append(Iff(keep, present) if symbolic(keep) else (keep == present))
        order = [n for n in [o.name for o, _ in exp] if n in names] == names
        return And(order, *parts)

    def header(a, r):
        return _same_header(a.old.doc, r)

    def fresh_and_unmutated(a, r):
        return (r is not a.doc) and not any(t[0] in ("store", "append") for t in a.trace) and not r.fields["trailing_comments"].items

    return {"sections_are_the_non_SEAL_members_in_order": sections_filtered, "other_fields_copied": header, "new_document_input_untouched_no_trailing_comments": fresh_and_unmutated}


def _keep_sig(I):
    # META copies keep their content signature
    orig = I.__class__
    return None


def _meta_copy_hook(I, recv, name, pos, kw, st):
    return None


REMOVE = FunctionContract(M, "_remove_seal_section", {"doc": DocP("full", with_comments=True)}, remove_posts())


# ---- compute_seal ----------------------------------------------------------------------------------------------------
def compute_posts():
    def fields(a, r):
        e = r.entries
        return And(_eq(e["HASH"], z3.Concat(z3.StringVal('"'), lib.sha256_fn(a.content), z3.StringVal('"'))), e["ALGORITHM"] == "SHA256", list(e.keys())[:3] == ["SCOPE", "ALGORITHM", "HASH"])

    def grammar(a, r):
        return ("GRAMMAR" in r.entries) == (a.grammar_version is not None) and (a.grammar_version is None or r.entries["GRAMMAR"] is a.grammar_version)

    return {"hash_is_quoted_sha256_of_content": fields, "grammar_iff_given": grammar}


COMPUTE = FunctionContract(M, "compute_seal", {"content": Str(), "grammar_version": Str()}, compute_posts())
COMPUTE_NOGV = FunctionContract(M, "compute_seal", {"content": Str(), "grammar_version": Const(None)}, compute_posts())


# ---- seal_document ---------------------------------------------------------------------------------------------------------
def strip_quotes_axioms(I):
    """str.strip('\"') facts used by the sealer: a string without a leading/trailing quote is unchanged;
    stripping '\"' + s + '\"' where s has no quote at either end gives s; sha256 hex digests contain no quote."""
    f = z3.Function("str_strip_1", z3.StringSort(), z3.StringSort(), z3.StringSort())
    s = z3.String("qs")
    q = z3.StringVal('"')
    noq = lambda t: z3.And(z3.Not(z3.PrefixOf(q, t)), z3.Not(z3.SuffixOf(q, t)))  # noqa: E731
    I.base_assumptions.append(z3.ForAll([s], z3.Implies(noq(s), f(s, q) == s), patterns=[f(s, q)]))
    I.base_assumptions.append(z3.ForAll([s], z3.Implies(noq(s), f(z3.Concat(q, s, q), q) == s), patterns=[f(z3.Concat(q, s, q), q)]))
    I.base_assumptions.append(z3.ForAll([s], z3.And(z3.Length(lib.sha256_fn(s)) == 64, noq(lib.sha256_fn(s))), patterns=[lib.sha256_fn(s)]))
    return f


def seal_posts():
    def sealed_shape(a, r):
        secs = r.fields["sections"].items
        if not secs:
            return False
        seal = secs[-1]
        exp = spec_remove(a.old.doc)
        names = [g.name for g in secs[:-1]]
        parts = [Iff(keep, o.name in names) if symbolic(keep) else (keep == (o.name in names)) for o, keep in exp]
        order = [n for n in [o.name for o, _ in exp] if n in names] == names
        kids = seal.fields["children"].items
        keys = [k.fields["key"] for k in kids]
        return And(order, seal.cls == "Section", seal.fields["key"] == "SEAL", seal.fields["section_id"] == "SEAL", keys[:3] == ["SCOPE", "ALGORITHM", "HASH"], kids[1].fields["value"] == "SHA256", *parts)

    def hash_is_sha_of_emit_of_unsealed(a, r):
        seal = r.fields["sections"].items[-1]
        h = [k for k in seal.fields["children"].items if k.fields["key"] == "HASH"][0].fields["value"]
        # the unsealed content: header of the input + the kept sections
        kept = [o for o in r.fields["sections"].items[:-1]]
        unsealed = sig_doc(opt_str(a.old.doc.fields["name"]), a.old.doc.fields["meta"]._sig, sections_sig(kept), a.old.doc.fields["has_separator"], opt_str(None), opt_str(a.old.doc.fields["grammar_version"]))
        return h == lib.sha256_fn(emit_of(unsealed))

    def header_and_frame(a, r):
        return And(_same_header(a.old.doc, r), (r is not a.doc), not any(t[0] == "store" and not str(t[1]).startswith(("Document#", "Section#", "Assignment#")) for t in a.trace))

    def grammar_child(a, r):
        seal = r.fields["sections"].items[-1]
        ks = [k.fields["key"] for k in seal.fields["children"].items]
        return ("GRAMMAR" in ks) == (a.old.doc.fields["grammar_version"] is not None)

    return {"the_sealed_text_is_the_plain_canonical_emission": _plain_emission_only, "sections_are_unsealed_members_plus_SEAL": sealed_shape, "HASH_is_sha256_of_emit_of_unsealed_content": hash_is_sha_of_emit_of_unsealed, "header_copied_input_untouched": header_and_frame, "GRAMMAR_child_iff_version": grammar_child}


def _seal_setup(I):
    strip_quotes_axioms(I)
    # meta.copy() keeps the signature tag
    import verif.pyvc.lib as L

    if not getattr(L, "_sig_copy_patched", False):
        orig = L.dict_method

        def dict_method(I2, d, name, pos, kw, st):
            for s2, r in orig(I2, d, name, pos, kw, st):
                if name == "copy" and hasattr(d, "_sig") and isinstance(r, SDict):
                    r._sig = d._sig
                yield s2, r

        L.dict_method = dict_method
        L._sig_copy_patched = True


SEAL = FunctionContract(M, "seal_document", {"doc": DocP("full")}, seal_posts(), setup=_seal_setup, callee_contracts={"octave_mcp.core.emitter:emit": emit_contract}, inline_depth=6)


# ---- verify_seal -------------------------------------------------------------------------------------------------------------
def verify_posts(kind: str):
    def status(a, r):
        st = r.fields["status"]
        name = st.member if isinstance(st, SEnum) else None
        d = a.old.doc
        secs = d.fields["sections"].items
        s1, s2 = secs[1], secs[3]
        first_is_seal = is_seal_node(s1)
        second_is_seal = is_seal_node(s2)
        # the first Section keyed SEAL decides: s1 has one non-SEAL-named child X (data {X:1} non-empty); s2 per `kind`
        kept = [o for o in secs if o.name not in ()]
        f = z3.Function("str_strip_1", z3.StringSort(), z3.StringSort(), z3.StringSort())
        # content hash of the document without its SEAL sections
        def unsealed_sig():
            # kept members depend on the path: decided from the returned expected/actual? use the spec
            exp = spec_remove(d)
            return exp
        exp = unsealed_sig()
        # build the signature by cases over which sections are SEAL (two symbolic keys -> 4 cases)
        cases = []
        for k1 in (True, False):
            for k2 in (True, False):
                cond = And(first_is_seal if k1 else Not(first_is_seal), second_is_seal if k2 else Not(second_is_seal))
                keep = [o for o in secs if not ((o is s1 and k1) or (o is s2 and k2))]
                sig = sig_doc(opt_str(d.fields["name"]), d.fields["meta"]._sig, sections_sig(keep), d.fields["has_separator"], opt_str(None), opt_str(d.fields["grammar_version"]))
                computed = lib.sha256_fn(emit_of(sig))
                if k1:
                    # seal data of s1 = {X: 1}: no HASH -> stored "" ; VERIFIED iff computed == ""  (never: digests have 64 chars)
                    want = "INVALID"
                    cases.append(Implies(cond, name == want))
                elif k2:
                    if kind == "full":
                        stored = f(s2.fields["children"].items[2].fields["value"], z3.StringVal('"'))
                        cases.append(Implies(cond, (computed == stored) if name == "VERIFIED" else (z3.Not(computed == stored) if name == "INVALID" else False)))
                    else:
                        cases.append(Implies(cond, name == "NO_SEAL"))  # a SEAL section without assignment children counts as no seal
                else:
                    cases.append(Implies(cond, name == "NO_SEAL"))
        return And(*cases)

    def untouched(a, r):
        return not any(t[0] in ("store", "append") and not str(t[1]).startswith(("Document#", "SealVerificationResult#")) for t in a.trace)

    return {f"the_verified_text_is_the_plain_canonical_emission[{kind}]": _plain_emission_only, f"status_by_hash_comparison[{kind}]": status, f"input_untouched[{kind}]": untouched}


VERIFY = FunctionContract(M, "verify_seal", {"doc": DocP("full")}, verify_posts("full"), setup=_seal_setup, callee_contracts={"octave_mcp.core.emitter:emit": emit_contract}, inline_depth=6)
VERIFY_EMPTY = FunctionContract(M, "verify_seal", {"doc": DocP("comment")}, verify_posts("comment"), setup=_seal_setup, callee_contracts={"octave_mcp.core.emitter:emit": emit_contract}, inline_depth=6)
