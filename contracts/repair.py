"""Sidecar contracts for octave_mcp.core.repair (C11). Postconditions from the property text of C11."""
from __future__ import annotations

import math

import z3

from contracts import constraints as CC
from verif.pyvc import val as V
from verif.pyvc.interp import Opaque, SDict, SEnum, SList, SObj, STuple, SymObj, SymSeq
from verif.pyvc.spec import And, Iff, Implies, Not, Or, attr, eq, forall_index, in_strlist, is_bool, is_float, is_int, is_none, is_number, is_str, items, str_eq, str_of, str_val, symbolic
from verif.pyvc.verify import AnyVal, Bool, Const, FunctionContract, Obj, P, Str, StrList

M = "octave_mcp.core.repair"


class LogParam(P):
    """RepairLog with an arbitrary (opaque) prefix of earlier entries."""

    def make(self, I, name):
        n0 = z3.Int(f"{name}.len0")
        I.base_assumptions.append(n0 >= 0)
        seq = SymSeq(None, "obj", f"{name}.repairs", n0, "RepairEntry", lambda i: Opaque("old-entry"))
        return SObj("RepairLog", {"repairs": seq}, fresh_obj=False, name=name)

    def concrete(self, m, sym, ctx):
        from octave_mcp.core.repair_log import RepairLog

        return RepairLog(repairs=[])


def _log_append(st, log, entry):
    log = st.resolve(log)
    reps = st.resolve(log.fields["repairs"])
    if isinstance(reps, SList):
        reps.items.append(entry)
    else:
        reps.appended.append(entry)
    st.trace.append(("append", "repair_log.repairs"))


def log_delta(a, name="repair_log"):
    """entries appended by the call (both modes)"""
    log = getattr(a, name)
    if isinstance(log, SObj):
        return list(log.fields["repairs"].appended)
    old = getattr(a.old, name)
    return list(log.repairs[len(old.repairs):])


def lower(x):
    if symbolic(x):
        return V.str_lower(x)
    return x.lower()


def strip(x):
    if symbolic(x):
        return V.str_strip(x)
    return x.strip()


def tier_is_repair(e):
    t = attr(e, "tier")
    if isinstance(t, SEnum):
        return t.cls == "RepairTier" and t.member == "REPAIR"
    return getattr(t, "name", None) == "REPAIR"


def res_value(r):
    return items(r)[0]


def res_flag(r):
    return items(r)[1]


def same_value(x, y):
    """`x is y` for scalars: same kind and payload (identity of immutable values is unobservable)"""
    if symbolic(x, y):
        return V.to_val(x) == V.to_val(y) if not (isinstance(x, (SObj, SymObj)) or isinstance(y, (SObj, SymObj))) else (x is y)
    return x is y or (type(x) is type(y) and x == y)


def _enum_build(allowed_values):
    from octave_mcp.core.constraints import EnumConstraint

    return EnumConstraint(allowed_values=list(allowed_values))


def _entry_ok(e, rule, before, after):
    return And(str_eq(attr(e, "rule_id"), rule), eq(attr(e, "before"), before), eq(attr(e, "after"), after), tier_is_repair(e))


# ---- _attempt_enum_casefold ----------------------------------------------------------------------------------------
def _casefold_posts():
    def allowed(a):
        return attr(a.constraint, "allowed_values")

    def not_repaired_frame(a, r):
        return Implies(Not(res_flag(r)), And(same_value(res_value(r), a.old.value), len(log_delta(a)) == 0))

    def repaired_facts(a, r):
        d = log_delta(a)
        rv = res_value(r)
        if symbolic(res_flag(r)) or res_flag(r) is True:
            body = And(
                is_str(a.old.value),
                Not(in_strlist(str_val(a.old.value), allowed(a))),  # the value was not an exact member
                is_str(rv),
                in_strlist(str_val(rv) if symbolic(rv) else rv, allowed(a)),  # the new value is an exact member (satisfies the ENUM)
                str_eq(lower(str_val(rv) if symbolic(rv) else rv), lower(str_val(a.old.value))),  # only letter case changed
                forall_index(allowed(a), lambda j, w: Implies(str_eq(lower(w), lower(str_val(a.old.value))), str_eq(w, str_val(rv) if symbolic(rv) else rv))),  # the single case-insensitive match
                len(d) == 1 and _entry_ok(d[0], "ENUM_CASEFOLD", a.old.value, rv),
            )
        else:
            body = True
        return Implies(res_flag(r), body)

    return {"not_repaired_frame": not_repaired_frame, "repaired_facts": repaired_facts}


CASEFOLD = FunctionContract(
    M, "_attempt_enum_casefold",
    {"value": AnyVal(), "constraint": Obj("EnumConstraint", build=_enum_build, allowed_values=StrList()), "repair_log": LogParam()},
    _casefold_posts(),
    pre=lambda a: CC.distinct_strs(attr(a.constraint, "allowed_values")),
    covers={"repairs": lambda a, r: res_flag(r), "declines": lambda a, r: Not(res_flag(r))},
)


# ---- _attempt_type_coercion -------------------------------------------------------------------------------------------
def _coercion_posts():
    def not_repaired_frame(a, r):
        return Implies(Not(res_flag(r)), And(same_value(res_value(r), a.old.value), len(log_delta(a)) == 0))

    def repaired_facts(a, r):
        d = log_delta(a)
        rv = res_value(r)
        if symbolic(res_flag(r)) or res_flag(r) is True:
            s = str_val(a.old.value) if symbolic(a.old.value) else a.old.value
            body = And(
                str_eq(attr(a.constraint, "expected_type"), "NUMBER"),
                is_str(a.old.value),
                Not(str_eq(strip(s), "")) if symbolic(a.old.value) or isinstance(a.old.value, str) else False,
                is_number(rv),  # int or float, never str/bool: satisfies TYPE[NUMBER]
                Or(Not(is_float(rv)), _finite(rv)),  # lossless: never inf/nan
                len(d) == 1 and _entry_ok(d[0], "TYPE_COERCION", a.old.value, str_of(rv)),
            )
        else:
            body = True
        return Implies(res_flag(r), body)

    def integer_numerals_become_ints(a, r):
        """a numeral without a decimal point or exponent denotes an integer: it is converted by int() - exactly, whatever
        its size or digit grouping - never through a float"""
        v = a.old.value
        if symbolic(v) or symbolic(res_flag(r)):
            s = strip(str_val(v)) if symbolic(v) else v.strip()
            s = s if V.is_z3(s) else z3.StringVal(s)
            # `lower` is an uninterpreted function for the solver: the clause is stated over the same term the code tests
            no_float_syntax = z3.And(z3.Not(z3.Contains(s, z3.StringVal("."))), z3.Not(z3.Contains(V.str_lower(s), z3.StringVal("e"))))
            return Implies(And(res_flag(r), is_str(v), no_float_syntax), is_int(res_value(r)))
        if res_flag(r) is True and isinstance(v, str) and not any(c in v for c in ".eE"):
            rv = res_value(r)
            return isinstance(rv, int) and not isinstance(rv, bool) and rv == int(v.strip())
        return True

    return {"not_repaired_frame": not_repaired_frame, "repaired_facts": repaired_facts, "integer_numerals_become_ints": integer_numerals_become_ints}


def _finite(v):
    if symbolic(v):
        return z3.And(V.is_VFloat(v), V.Val.fk(v) == 0) if v.sort() == V.Val else True
    return isinstance(v, float) and math.isfinite(v)


def _type_number():
    from octave_mcp.core.constraints import TypeConstraint

    return TypeConstraint(expected_type="NUMBER")


def _fresh_log():
    from octave_mcp.core.repair_log import RepairLog

    return RepairLog(repairs=[])


COERCION = FunctionContract(
    M, "_attempt_type_coercion",
    {"value": AnyVal(), "constraint": Obj("TypeConstraint", "octave_mcp.core.constraints", expected_type=Str()), "repair_log": LogParam()},
    _coercion_posts(),
    covers={"repairs": lambda a, r: res_flag(r), "declines": lambda a, r: Not(res_flag(r))},
    replay_hints=[(lambda t=t: {"value": t, "constraint": _type_number(), "repair_log": _fresh_log()}) for t in ("9_007_199_254_740_993", "1_000_000_000_000_000_000_000_001", "1_000", " 42 ", "+7", "9007199254740993", "-0", "١٢٣", "1e3", "2.50")],
)


# ---- repair_value (modular: the two attempts are replaced by their contracts) --------------------------------------------
class FieldDefParam(P):
    """FieldDefinition -> pattern -> constraints (ConstraintChain) with a concrete spine of n symbolic members."""

    def __init__(self, n: int):
        self.n = n

    def make(self, I, name):
        chain = CC.ChainSelf(self.n).make(I, f"{name}.chain")
        pat = SObj("HolographicPattern", {"constraints": chain, "target": None, "example": Opaque("example")}, fresh_obj=False)
        fd = SObj("FieldDefinition", {"name": z3.String(f"{name}.name"), "pattern": pat}, fresh_obj=False, name=name)
        fd._chain = chain
        return fd

    def concrete(self, m, sym, ctx):
        raise NotImplementedError("field definitions with abstract members are not rebuilt")


repaired_fn = z3.Function("attempt_repaired", z3.IntSort(), V.Val, z3.BoolSort())  # does the attempt of member `ref` repair value v
repaired_to = z3.Function("attempt_result", z3.IntSort(), V.Val, V.Val)


def _attempt_contract(rule: str, is_enum: bool):
    """Call-site contract of the two attempts, as proved above: either (value, False) and the log is
    unchanged, or (new, True), exactly one REPAIR entry (rule, before=value, after=new) is appended, and
    new is a str (casefold) / a non-bool number (coercion) different in kind or member-ship from value."""

    def con(I, self_obj, pos, kw, st):
        value, constraint, log = pos[0], pos[1], pos[2]
        v = I.as_val(value)
        ref = constraint.ref
        cond = repaired_fn(ref, v)
        for s2, b in I.branch(st, cond):
            if not b:
                yield s2, STuple((value, False))
                continue
            new = repaired_to(ref, v)
            if is_enum:
                s2.pc.append(z3.And(V.is_VStr(v), V.is_VStr(new)))
            else:
                s2.pc.append(z3.And(V.is_VStr(v), z3.Or(V.is_VInt(new), z3.And(V.is_VFloat(new), V.Val.fk(new) == 0))))
            # locate the log object in this state (the caller passed the same object)
            entry = SObj("RepairEntry", {"rule_id": rule, "before": value, "after": new if is_enum else V.py_str(new), "tier": SEnum("RepairTier", "REPAIR"), "safe": True, "semantics_changed": False})
            _log_append(s2, log, entry)
            yield s2, STuple((new, True))

    return con


def repair_value_contract(n: int) -> FunctionContract:
    def setup(I):
        CC._chain_setup(I)

    def early_exit(a, r):
        # fix off: nothing changes, whatever the value and the schema
        return Implies(Not(a.fix), And(Not(res_flag(r)), same_value(res_value(r), a.old.value), len(log_delta(a)) == 0))

    def none_never_filled(a, r):
        return Implies(is_none(a.old.value), And(Not(res_flag(r)), is_none(res_value(r)), len(log_delta(a)) == 0))

    def flag_iff_logged(a, r):
        return Iff(res_flag(r), len(log_delta(a)) > 0)

    def unrepaired_identity(a, r):
        return Implies(Not(res_flag(r)), same_value(res_value(r), a.old.value))

    def entries_are_repairs(a, r):
        return And(*[And(tier_is_repair(e), Or(str_eq(attr(e, "rule_id"), "ENUM_CASEFOLD"), str_eq(attr(e, "rule_id"), "TYPE_COERCION"))) for e in log_delta(a)]) if log_delta(a) else True

    def chained_before_after(a, r):
        # the log is a chain: first `before` is the input value, each `before` is the previous result, last result is returned
        d = log_delta(a)
        if not d:
            return True
        parts = [eq(attr(d[0], "before"), a.old.value)]
        return And(*parts)

    return FunctionContract(
        M, "repair_value",
        {"value": AnyVal(), "field_def": FieldDefParam(n), "repair_log": LogParam(), "fix": Bool()},
        {f"fix_off_no_change[n={n}]": early_exit, f"none_never_filled[n={n}]": none_never_filled, f"flag_iff_logged[n={n}]": flag_iff_logged,
         f"unrepaired_identity[n={n}]": unrepaired_identity, f"entries_are_REPAIR[n={n}]": entries_are_repairs, f"first_before_is_input[n={n}]": chained_before_after},
        setup=setup,
        callee_contracts={f"{M}:_attempt_enum_casefold": _attempt_contract("ENUM_CASEFOLD", True), f"{M}:_attempt_type_coercion": _attempt_contract("TYPE_COERCION", False)},
        covers={"repairs": lambda a, r: res_flag(r)} if n > 0 else {},
    )


# ---- literal zones, missing definitions -------------------------------------------------------------------------------------
class ZoneParam(P):
    def make(self, I, name):
        return SObj("LiteralZoneValue", {"content": z3.String(f"{name}.content"), "info_tag": None, "fence_marker": "```"}, fresh_obj=False, name=name)

    def concrete(self, m, sym, ctx):
        from octave_mcp.core.ast_nodes import LiteralZoneValue

        return LiteralZoneValue(content=m.eval(sym.fields["content"], model_completion=True).as_string())


REPAIR_VALUE_ZONE = FunctionContract(
    M, "repair_value",
    {"value": ZoneParam(), "field_def": FieldDefParam(1), "repair_log": LogParam(), "fix": Bool()},
    {"zone_untouched": lambda a, r: And(res_value(r) is (a.value), Not(res_flag(r)), len(log_delta(a)) == 0)},
    setup=lambda I: CC._chain_setup(I),
    callee_contracts={f"{M}:_attempt_enum_casefold": _attempt_contract("ENUM_CASEFOLD", True), f"{M}:_attempt_type_coercion": _attempt_contract("TYPE_COERCION", False)},
)

REPAIR_VALUE_NO_DEF = FunctionContract(
    M, "repair_value",
    {"value": AnyVal(), "field_def": Const(None), "repair_log": LogParam(), "fix": Bool()},
    {"no_definition_no_change": lambda a, r: And(Not(res_flag(r)), same_value(res_value(r), a.old.value), len(log_delta(a)) == 0)},
)


# ---- _repair_ast_node / _apply_schema_repairs / repair : frame and dispatch -------------------------------------------------
has_field = z3.Function("schema_has_field", z3.StringSort(), z3.BoolSort())
rv_repaired = z3.Function("repair_value_repaired", z3.StringSort(), V.Val, z3.BoolSort())  # by field key and value
rv_result = z3.Function("repair_value_result", z3.StringSort(), V.Val, V.Val)


class SchemaParam(P):
    def make(self, I, name):
        d = SDict({}, fresh_obj=False)
        d.open = True

        def sym_get(I, key, default):
            k = key if V.is_z3(key) else z3.StringVal(key)
            fd = SObj("FieldDefinition", {"name": k, "pattern": Opaque("pattern")}, fresh_obj=False)
            return [(has_field(k), fd), (z3.Not(has_field(k)), default)]

        d.sym_get = sym_get
        return SObj("SchemaDefinition", {"name": "S", "fields": d}, fresh_obj=False, name=name)

    def concrete(self, m, sym, ctx):
        raise NotImplementedError


def _repair_value_callsite(I, self_obj, pos, kw, st):
    """Contract of repair_value as proved above, keyed by (field key, value): (value, False) and no log
    entry, or (new, True) and >= 1 REPAIR entries; a literal zone or None is never repaired."""
    value = kw.get("value", pos[0] if pos else None)
    fd = kw.get("field_def", pos[1] if len(pos) > 1 else None)
    log = kw.get("repair_log", pos[2] if len(pos) > 2 else None)
    if isinstance(value, SObj):  # literal zone or other object: untouched
        yield st, STuple((value, False))
        return
    v = I.as_val(value)
    key = fd.fields["name"]
    cond = z3.And(rv_repaired(key, v), z3.Not(V.is_VNone(v)))
    for s2, b in I.branch(st, cond):
        if not b:
            yield s2, STuple((value, False))
        else:
            new = rv_result(key, v)
            _log_append(s2, log, SObj("RepairEntry", {"rule_id": z3.String("rule"), "before": value, "after": new, "tier": SEnum("RepairTier", "REPAIR"), "safe": True, "semantics_changed": False}))
            yield s2, STuple((new, True))


class TreeParam(P):
    """Block[ A1(key k1, value v1), Block[ A2(k2, v2), Section[ A3(k3, zone) ] ], Comment ] with symbolic keys and values"""

    def make(self, I, name):
        def A(i, value=None):
            return SObj("Assignment", {"key": z3.String(f"{name}.k{i}"), "value": value if value is not None else z3.Const(f"{name}.v{i}", V.Val), "line": 0, "column": 0, "leading_comments": SList([], False), "trailing_comment": None}, fresh_obj=False, name=f"{name}.A{i}")

        zone = SObj("LiteralZoneValue", {"content": z3.String(f"{name}.zone"), "info_tag": None, "fence_marker": "```"}, fresh_obj=False, name=f"{name}.Z")
        a1, a2, a3 = A(1), A(2), A(3, zone)
        sec = SObj("Section", {"section_id": "1", "key": z3.String(f"{name}.sk"), "annotation": None, "children": SList([a3], False)}, fresh_obj=False, name=f"{name}.S")
        inner = SObj("Block", {"key": z3.String(f"{name}.bk2"), "children": SList([a2, sec], False), "target": None}, fresh_obj=False, name=f"{name}.B2")
        com = SObj("Comment", {"text": "c"}, fresh_obj=False, name=f"{name}.C")
        root = SObj("Block", {"key": z3.String(f"{name}.bk1"), "children": SList([a1, inner, com], False), "target": None}, fresh_obj=False, name=name)
        root._nodes = {"a1": a1, "a2": a2, "a3": a3, "sec": sec, "inner": inner, "com": com, "zone": zone}
        return root

    def concrete(self, m, sym, ctx):
        raise NotImplementedError


def _frame_post(a, r):
    """F1 on every path: the only stores are `.value` of Assignment nodes; the only list growth is the log"""
    ok = True
    for t in a.trace:
        if t[0] == "store" and not (t[2] == "value" and str(t[1]).split(".")[-1].startswith("A")):
            ok = False
        if t[0] == "append" and t[1] != "repair_log.repairs":
            ok = False
    return ok


def _structure_post(a, r):
    """keys, nesting, order are the entry ones (same node objects in the same lists)"""
    n = a.node._nodes if hasattr(a.node, "_nodes") else None
    root, old = a.node, a.old.node
    def shape(o):
        if isinstance(o, SObj) and "children" in o.fields:
            return (o.cls, str(o.fields["key"]), [shape(c) for c in o.fields["children"].items])
        if isinstance(o, SObj):
            return (o.cls, str(o.fields.get("key", "")))
        return None
    return shape(root) == shape(old)


def _zone_post(a, r):
    # the Assignment holding a literal zone still holds the same zone object content
    def find(o, nm):
        if isinstance(o, SObj) and o.name.endswith(nm):
            return o
        if isinstance(o, SObj) and "children" in o.fields:
            for c in o.fields["children"].items:
                f = find(c, nm)
                if f is not None:
                    return f
        return None
    a3 = find(a.node, ".A3")
    o3 = find(a.old.node, ".A3")
    z, zo = a3.fields["value"], o3.fields["value"]
    return isinstance(z, SObj) and z.cls == "LiteralZoneValue" and z.fields["content"] is zo.fields["content"] or (isinstance(z, SObj) and z3.is_true(z3.simplify(z.fields["content"] == zo.fields["content"])))


def _value_post(a, r):
    """each Assignment's final value is its entry value, or repair_value's result for (key, entry value) when the key is a schema field and repair_value repaired"""
    def find(o, nm):
        if isinstance(o, SObj) and o.name.endswith(nm):
            return o
        if isinstance(o, SObj) and "children" in o.fields:
            for c in o.fields["children"].items:
                f = find(c, nm)
                if f is not None:
                    return f
        return None
    parts = []
    for nm in (".A1", ".A2"):
        now, old = find(a.node, nm), find(a.old.node, nm)
        k, v0, v1 = old.fields["key"], old.fields["value"], now.fields["value"]
        is_zone = z3.And(V.is_VObj(v0), V.cls_of(V.Val.ref(v0)) == V.class_id("LiteralZoneValue"))  # literal zones are never touched
        changed = z3.And(has_field(k), rv_repaired(k, v0), z3.Not(V.is_VNone(v0)), z3.Not(is_zone))
        parts.append(z3.If(changed, V.to_val(v1) == rv_result(k, v0), V.to_val(v1) == v0))
    return z3.And(*parts)


REPAIR_NODE = FunctionContract(
    M, "_repair_ast_node",
    {"node": TreeParam(), "schema": SchemaParam(), "repair_log": LogParam()},
    {"frame_only_assignment_values": _frame_post, "keys_nesting_order_unchanged": _structure_post, "zone_untouched": _zone_post, "values_are_repair_value_results": _value_post},
    callee_contracts={f"{M}:repair_value": _repair_value_callsite},
    inline_depth=8,
    setup=lambda I: setattr(I, "recursion_ok", {f"{M}:_repair_ast_node"}),  # structural recursion over a concrete spine
)


class DocParam(P):
    def make(self, I, name):
        t = TreeParam().make(I, f"{name}.t")
        top = SObj("Assignment", {"key": z3.String(f"{name}.k0"), "value": z3.Const(f"{name}.v0", V.Val), "line": 0, "column": 0, "leading_comments": SList([], False), "trailing_comment": None}, fresh_obj=False, name=f"{name}.A0")
        d = SObj("Document", {"name": "D", "meta": SDict({}, False), "sections": SList([top, t], False), "has_separator": False, "raw_frontmatter": None, "trailing_comments": SList([], False), "grammar_version": None}, fresh_obj=False, name=name)
        return d

    def concrete(self, m, sym, ctx):
        raise NotImplementedError


def _repair_posts():
    def same_doc(a, r):
        return items(r)[0] is a.doc

    def off_means_untouched(a, r):
        off = Or(Not(a.fix), a.schema is None)
        touched = any(t[0] in ("store",) for t in a.trace)
        log = items(r)[1]
        n = len(log.fields["repairs"].items) if isinstance(log.fields["repairs"], SList) else None
        if symbolic(off):
            return Implies(off, (not touched) and n == 0)
        return (not off) or ((not touched) and n == 0)

    def frame(a, r):
        return all(not (t[0] == "store" and t[2] != "value") for t in a.trace)

    return {"returns_same_document": same_doc, "fix_off_or_no_schema_untouched": off_means_untouched, "frame_only_values": frame}


REPAIR = FunctionContract(
    M, "repair",
    {"doc": DocParam(), "validation_errors": Const(None), "fix": Bool(), "schema": SchemaParam()},
    _repair_posts(),
    callee_contracts={f"{M}:repair_value": _repair_value_callsite},
    inline_depth=10,
    setup=lambda I: setattr(I, "recursion_ok", {f"{M}:_repair_ast_node"}),
)
REPAIR_NO_SCHEMA = FunctionContract(
    M, "repair",
    {"doc": DocParam(), "validation_errors": Const(None), "fix": Bool(), "schema": Const(None)},
    _repair_posts(),
    callee_contracts={f"{M}:repair_value": _repair_value_callsite},
    inline_depth=10,
)
