"""Sidecar contracts for octave_mcp.core.constraints (C08, used by C11 and C13).

Top-level postconditions are taken from the property text of C08; where the text is silent the
contract is silent too (marked 'free')."""
from __future__ import annotations

import re as _re
from datetime import date as _date

import z3

from verif import extract
from verif.pyvc import lib
from verif.pyvc import val as V
from verif.pyvc.spec import (
    And, Iff, Implies, Not, Or, attr, distinct_strs, eq, exists_index, exists_two, in_strlist, is_bool, is_float, is_int, is_list, is_nan, is_none, is_number, is_obj_of,
    is_str, items, length, num_le, startswith, str_eq, str_of, str_val, symbolic,
)
from verif.pyvc.verify import AnyVal, Bool, Const, FunctionContract, Int, Obj, P, Str, StrList

M = "octave_mcp.core.constraints"


# ---- result accessors (dual mode) ----------------------------------------------------------------------


def valid(r):
    return attr(r, "valid")


def first_code(r):
    es = items(attr(r, "errors"))
    return attr(es[0], "code") if es else None


def rejected_with(r, *codes):
    """not valid, at least one error, first error code is one of `codes`"""
    es = items(attr(r, "errors"))
    if not es:
        return False
    c = attr(es[0], "code")
    return And(Not(valid(r)), Or(*[str_eq(c, k) for k in codes]))


def accepted(r):
    return And(valid(r), len(items(attr(r, "errors"))) == 0)


def well_formed(a, r):
    """valid <=> no errors (every kind)"""
    return Iff(valid(r), len(items(attr(r, "errors"))) == 0)


def _list_factory():
    return [1, 2]


ANY = AnyVal(objs={"list": _list_factory, "dict": dict, "LiteralZoneValue": lambda: __import__("octave_mcp.core.ast_nodes", fromlist=["x"]).LiteralZoneValue(content="x")})


def _call_evaluate(f, args):
    return args["self"].evaluate(**{k: v for k, v in args.items() if k != "self"})


def C(qual: str, self_spec: P, posts: dict, pre=None, covers=None, setup=None, **kw) -> FunctionContract:
    return FunctionContract(M, qual, {"self": self_spec, "value": ANY, "path": Str()}, posts, pre=pre, covers=covers or {}, call=_call_evaluate, setup=setup, **kw)


# ---- REQ ---------------------------------------------------------------------------------------------------
REQ = C(
    "RequiredConstraint.evaluate",
    Obj("RequiredConstraint", M),
    {
        "wf": well_formed,
        "reject_empty": lambda a, r: Implies(Or(is_none(a.value), And(is_str(a.value), str_eq(str_val(a.value), ""))), rejected_with(r, "E003")),
        # non-empty strings, numbers and booleans are present values; empty list / map: free
        "accept_present": lambda a, r: Implies(Or(And(is_str(a.value), Not(str_eq(str_val(a.value), ""))), is_number(a.value), is_bool(a.value)), accepted(r)),
    },
    covers={"reject": lambda a, r: Not(valid(r)), "accept": lambda a, r: valid(r)},
)

OPT = C("OptionalConstraint.evaluate", Obj("OptionalConstraint", M), {"always": lambda a, r: accepted(r)})

# ---- CONST -------------------------------------------------------------------------------------------------
CONST = C(
    "ConstConstraint.evaluate",
    Obj("ConstConstraint", M, const_value=AnyVal()),
    {
        "wf": well_formed,
        "equality": lambda a, r: Iff(valid(r), eq(a.value, attr(a.self, "const_value"))),
        "code": lambda a, r: Implies(Not(valid(r)), rejected_with(r, "E004")),
    },
    covers={"reject": lambda a, r: Not(valid(r)), "accept": lambda a, r: valid(r)},
)


# ---- ENUM --------------------------------------------------------------------------------------------------
def _enum_build(allowed_values):
    from octave_mcp.core.constraints import EnumConstraint

    return EnumConstraint(allowed_values=list(allowed_values))


def _exact(a):
    return in_strlist(str_of(a.value), attr(a.self, "allowed_values"))


def _pref(a):
    vs = str_of(a.value)
    return lambda x: startswith(x, vs)


ENUM = C(
    "EnumConstraint.evaluate",
    Obj("EnumConstraint", M, build=_enum_build, allowed_values=StrList()),
    {
        "wf": well_formed,
        "exact": lambda a, r: Implies(_exact(a), accepted(r)),
        "no_match": lambda a, r: Implies(And(Not(_exact(a)), Not(exists_index(attr(a.self, "allowed_values"), lambda j, x: _pref(a)(x)))), rejected_with(r, "E005")),
        "ambiguous": lambda a, r: Implies(And(Not(_exact(a)), exists_two(attr(a.self, "allowed_values"), _pref(a))), rejected_with(r, "E006")),
        "unique_prefix": lambda a, r: Implies(
            And(Not(_exact(a)), exists_index(attr(a.self, "allowed_values"), lambda j, x: _pref(a)(x)), Not(exists_two(attr(a.self, "allowed_values"), _pref(a)))), accepted(r)
        ),
    },
    pre=lambda a: distinct_strs(attr(a.self, "allowed_values")),
    covers={"reject": lambda a, r: Not(valid(r)), "accept": lambda a, r: valid(r)},
)

# ---- TYPE --------------------------------------------------------------------------------------------------
TYPE = C(
    "TypeConstraint.evaluate",
    Obj("TypeConstraint", M, expected_type=Str()),
    {
        "wf": well_formed,
        "string": lambda a, r: Implies(str_eq(attr(a.self, "expected_type"), "STRING"), Iff(valid(r), is_str(a.value))),
        "number": lambda a, r: Implies(str_eq(attr(a.self, "expected_type"), "NUMBER"), Iff(valid(r), is_number(a.value))),  # booleans never numbers
        "boolean": lambda a, r: Implies(str_eq(attr(a.self, "expected_type"), "BOOLEAN"), Iff(valid(r), is_bool(a.value))),
        "list": lambda a, r: Implies(str_eq(attr(a.self, "expected_type"), "LIST"), Iff(valid(r), is_obj_of(a.value, "list"))),
        "code": lambda a, r: Implies(Not(valid(r)), rejected_with(r, "E007")),
    },
    pre=lambda a: Or(*[str_eq(attr(a.self, "expected_type"), t) for t in ("STRING", "NUMBER", "BOOLEAN", "LIST")]),
    covers={"reject": lambda a, r: Not(valid(r)), "accept": lambda a, r: valid(r)},
)


# ---- REGEX -------------------------------------------------------------------------------------------------
REGEX_PATTERN = r"^[a-z]+[0-9]?$"  # a representative anchored pattern; `match` itself is the E2/A-re primitive


class RegexSelf(P):
    def make(self, I, name):
        from verif.pyvc.interp import SObj

        return SObj("RegexConstraint", {"pattern": REGEX_PATTERN, "_compiled": extract.Rx(REGEX_PATTERN, 0)}, fresh_obj=False, name=name)

    def concrete(self, m, sym, ctx):
        from octave_mcp.core.constraints import RegexConstraint

        return RegexConstraint(pattern=REGEX_PATTERN)


def _re_match(pattern, s):
    if symbolic(s):
        return lib.re_pred(pattern, 0, "match")(s)
    return _re.compile(pattern).match(s) is not None


REGEX = C(
    "RegexConstraint.evaluate",
    RegexSelf(),
    {
        "wf": well_formed,
        "match": lambda a, r: Iff(valid(r), _re_match(REGEX_PATTERN, str_of(a.value))),
        "code": lambda a, r: Implies(Not(valid(r)), rejected_with(r, "E008")),
    },
    covers={"reject": lambda a, r: Not(valid(r)), "accept": lambda a, r: valid(r)},
)


# ---- RANGE -------------------------------------------------------------------------------------------------
def _finite_number(v):
    if V.is_z3(v):
        return z3.Or(V.is_VInt(v), z3.And(V.is_VFloat(v), V.Val.fk(v) == 0))
    import math

    return isinstance(v, (int, float)) and not isinstance(v, bool) and math.isfinite(v)


def _float_ok(s):
    if symbolic(s):
        return V.float_str_ok(s)
    try:
        float(s)
        return True
    except ValueError:
        return False


def _float_of(s):
    if symbolic(s):
        k = V.float_of_str_k(s)
        return V.VFloat(V.float_of_str_v(s), k)
    try:
        return float(s)
    except ValueError:
        return None


def _within(a, v):
    return And(num_le(attr(a.self, "min_value"), v), num_le(v, attr(a.self, "max_value")))


def _range_build(min_value, max_value):
    from octave_mcp.core.constraints import RangeConstraint

    return RangeConstraint(min_value=min_value, max_value=max_value)


RANGE = C(
    "RangeConstraint.evaluate",
    Obj("RangeConstraint", M, build=_range_build, min_value=AnyVal(), max_value=AnyVal()),
    {
        "wf": well_formed,
        # inclusive numeric bounds, both directions, for numeric (non-bool) values
        "numeric": lambda a, r: Implies(is_number(a.value), Iff(valid(r), _within(a, a.value))),
        # any accepted value is a number or a numeric string within the bounds (bool: free -> the code rejects)
        "accepted_within": lambda a, r: Implies(
            valid(r), Or(And(is_number(a.value), _within(a, a.value)), And(is_str(a.value), _float_ok(str_val(a.value)), _within(a, _float_of(str_val(a.value)))))
        ),
        "code": lambda a, r: Implies(Not(valid(r)), rejected_with(r, "E011")),
    },
    pre=lambda a: And(_finite_number(attr(a.self, "min_value")), _finite_number(attr(a.self, "max_value")), num_le(attr(a.self, "min_value"), attr(a.self, "max_value"))),
    covers={"reject": lambda a, r: Not(valid(r)), "accept": lambda a, r: valid(r)},
)


# ---- MIN/MAX_LENGTH ----------------------------------------------------------------------------------------
def _len_of(v):
    if V.is_z3(v):
        return z3.If(V.is_VStr(v), z3.Length(V.Val.s(v)), V.len_of_obj(V.Val.ref(v)))
    return len(v)


def _sized(v):
    return Or(is_str(v), is_obj_of(v, "list"))


MAXLEN = C(
    "MaxLengthConstraint.evaluate",
    Obj("MaxLengthConstraint", M, max_length=Int()),
    {
        "wf": well_formed,
        "strings_and_lists": lambda a, r: Implies(_sized(a.value), Iff(valid(r), _len_of(a.value) <= attr(a.self, "max_length"))),
        "others_rejected": lambda a, r: Implies(Not(_sized(a.value)), rejected_with(r, "E012")),
        "code": lambda a, r: Implies(Not(valid(r)), rejected_with(r, "E012")),
    },
    pre=lambda a: attr(a.self, "max_length") >= 0,
    covers={"reject": lambda a, r: Not(valid(r)), "accept": lambda a, r: valid(r)},
)
MINLEN = C(
    "MinLengthConstraint.evaluate",
    Obj("MinLengthConstraint", M, min_length=Int()),
    {
        "wf": well_formed,
        "strings_and_lists": lambda a, r: Implies(_sized(a.value), Iff(valid(r), _len_of(a.value) >= attr(a.self, "min_length"))),
        "others_rejected": lambda a, r: Implies(Not(_sized(a.value)), rejected_with(r, "E013")),
        "code": lambda a, r: Implies(Not(valid(r)), rejected_with(r, "E013")),
    },
    pre=lambda a: attr(a.self, "min_length") >= 0,
    covers={"reject": lambda a, r: Not(valid(r)), "accept": lambda a, r: valid(r)},
)

# ---- DATE / ISO8601 ------------------------------------------------------------------------------------------
DATE_RE = r"^\d{4}-\d{2}-\d{2}$"


def real_date(s):
    """a real YYYY-MM-DD date (A-datetime in symbolic mode: CPython's fromisoformat on the matched shape)"""
    if symbolic(s):
        return z3.And(lib.re_pred(DATE_RE, 0, "match")(s), lib.iso_ok(s))
    m = _re.fullmatch(r"(\d{4})-(\d{2})-(\d{2})", s)
    if not m or not s.isascii():
        return False
    try:
        _date(int(m.group(1)), int(m.group(2)), int(m.group(3)))
        return True
    except ValueError:
        return False


DATE = C(
    "DateConstraint.evaluate",
    Obj("DateConstraint", M),
    {
        "wf": well_formed,
        "real_date": lambda a, r: Iff(valid(r), real_date(str_of(a.value))),
        "code": lambda a, r: Implies(Not(valid(r)), rejected_with(r, "E014")),
    },
    covers={"reject": lambda a, r: Not(valid(r)), "accept": lambda a, r: valid(r)},
)


def iso_datetime(s):
    if symbolic(s):
        f = z3.Function("str_replace_2", z3.StringSort(), z3.StringSort(), z3.StringSort(), z3.StringSort())
        return lib.iso_ok(f(s, z3.StringVal("Z"), z3.StringVal("+00:00")))
    from datetime import datetime

    try:
        datetime.fromisoformat(s.replace("Z", "+00:00"))
        return True
    except ValueError:
        return False


ISO = C(
    "Iso8601Constraint.evaluate",
    Obj("Iso8601Constraint", M),
    {
        "wf": well_formed,
        "iso": lambda a, r: Iff(valid(r), iso_datetime(str_of(a.value))),
        "code": lambda a, r: Implies(Not(valid(r)), rejected_with(r, "E015")),
    },
    covers={"reject": lambda a, r: Not(valid(r)), "accept": lambda a, r: valid(r)},
)

MEMBER_CONTRACTS = [REQ, OPT, CONST, ENUM, TYPE, REGEX, RANGE, MAXLEN, MINLEN, DATE, ISO]


# ====================================================================================================
# Chain level (C08.P14, P15). Chains have a concrete spine of n members (n <= 4 is the property's own
# bound); members, their parameters and the value are fully symbolic.
from verif.pyvc.interp import SList as _SList, SObj as _SObj, SymObj as _SymObj, SymSeq as _SymSeq  # noqa: E402
from verif.pyvc import calls as _calls  # noqa: E402

KINDS = ["RequiredConstraint", "OptionalConstraint", "ConstConstraint", "EnumConstraint", "TypeConstraint", "RegexConstraint", "DirConstraint", "AppendOnlyConstraint",
         "RangeConstraint", "MaxLengthConstraint", "MinLengthConstraint", "DateConstraint", "Iso8601Constraint", "LiteralConstraint", "LangConstraint"]

acc = z3.Function("acc", z3.IntSort(), V.Val, z3.BoolSort())  # verdict of member `ref` on a value (contract of Constraint.evaluate)
errlen = z3.Function("errlen", z3.IntSort(), V.Val, z3.IntSort())
tostr = z3.Function("to_string", z3.IntSort(), z3.StringSort())


class ChainSelf(P):
    def __init__(self, n: int):
        self.n = n

    def make(self, I, name):
        refs = [z3.Int(f"{name}.c{i}") for i in range(self.n)]
        ids = [V.class_id(k) for k in KINDS]
        for r in refs:
            I.base_assumptions.append(z3.Or(*[V.cls_of(r) == i for i in ids]))
        if len(refs) > 1:
            I.base_assumptions.append(z3.Distinct(*refs))
        for r in refs:
            cv = I.make_field("ConstConstraint", "const_value", "val", r)
            # const values are atoms (they come from _parse_atom): no heap objects, no NaN
            I.base_assumptions.append(z3.And(z3.Not(V.is_VObj(cv)), z3.Not(z3.And(V.is_VFloat(cv), V.Val.fk(cv) == 3)), wf(cv)))
        o = _SObj("ConstraintChain", {"constraints": _SList([_SymObj(r, "Constraint") for r in refs], fresh_obj=False)}, fresh_obj=False, name=name)
        o._refs = refs
        return o

    def concrete(self, m, sym, ctx):
        raise NotImplementedError("chain-level counter-models are not rebuilt (members are abstract): reported without a replayable input")


def wf(v):
    from verif.pyvc.verify import wf_val

    return wf_val(v)


def _chain_setup(I):
    I.declare_field("ConstConstraint", "const_value", "val")
    I.declare_field("EnumConstraint", "allowed_values", "strlist")
    r, v = z3.Int("r"), z3.Const("v", V.Val)
    I.base_assumptions.append(z3.ForAll([r, v], z3.And(errlen(r, v) >= 0, (errlen(r, v) > 0) == z3.Not(acc(r, v))), patterns=[errlen(r, v)]))
    # EnumConstraint.__post_init__ has already run: lengths are non-negative
    ln = z3.Function("EnumConstraint.allowed_values.len", z3.IntSort(), z3.IntSort())
    I.base_assumptions.append(z3.ForAll([r], ln(r) >= 0, patterns=[ln(r)]))


def _virtual_evaluate(I, self_obj, pos, kw, st):
    """Contract of Constraint.evaluate used at call sites: returns ValidationResult(valid=acc(self,value),
    errors=<list with errlen(self,value) elements>), never raises (see the member contracts: none of
    the evaluate bodies has an exceptional exit)."""
    value = pos[0] if pos else kw["value"]
    vv = I.as_val(value)
    ref = self_obj.ref
    errs = _SymSeq(None, "obj", f"errors({ref})", errlen(ref, vv), "ValidationError", lambda i: _SObj("ValidationError", {"code": z3.Function("err_code", z3.IntSort(), V.Val, z3.IntSort(), z3.StringSort())(ref, vv, i if V.is_z3(i) else z3.IntVal(i))}))
    yield st, _SObj("ValidationResult", {"valid": acc(ref, vv), "errors": errs})


def _virtual_to_string(I, self_obj, pos, kw, st):
    yield st, tostr(self_obj.ref)


def _is(ref, kind):
    return V.cls_of(ref) == V.class_id(kind)


def conflict_formula(I, chain) -> z3.ExprRef:
    """conflict(cs) from the property text: REQ with OPT, two different CONSTs, a CONST outside an ENUM."""
    refs = chain._refs
    req = z3.Or(*[_is(r, "RequiredConstraint") for r in refs]) if refs else z3.BoolVal(False)
    opt = z3.Or(*[_is(r, "OptionalConstraint") for r in refs]) if refs else z3.BoolVal(False)
    cv = lambda r: I.make_field("ConstConstraint", "const_value", "val", r)  # noqa: E731
    two = [z3.And(_is(a, "ConstConstraint"), _is(b, "ConstConstraint"), z3.Not(V.py_eq(cv(a), cv(b)))) for i, a in enumerate(refs) for b in refs[i + 1:]]
    outside = []
    for e in refs:
        for c in refs:
            if e is c:
                continue
            al = I.make_field("EnumConstraint", "allowed_values", "strlist", e)
            j = z3.FreshInt("sj")
            member = z3.Exists([j], z3.And(j >= 0, j < al.length, al.at(j) == V.py_str(cv(c))))
            outside.append(z3.And(_is(e, "EnumConstraint"), _is(c, "ConstConstraint"), z3.Not(member)))
    return z3.Or(z3.And(req, opt), *(two + outside))


def _call_method(name):
    def f(fn, args):
        return getattr(args["self"], name)(**{k: v for k, v in args.items() if k != "self"})

    return f


def detect_conflicts_contract(n: int) -> FunctionContract:
    holder = {}

    def setup(I):
        _chain_setup(I)
        holder["I"] = I

    def post_iff(a, r):
        from verif.pyvc.spec import length

        ln = length(r)
        nonempty = (ln > 0) if not isinstance(ln, int) else (ln > 0)
        return Iff(nonempty, conflict_formula(holder["I"], a.self))

    return FunctionContract(
        M, "ConstraintChain.detect_conflicts", {"self": ChainSelf(n)}, {f"conflicts_iff[n={n}]": post_iff}, setup=setup,
        callee_contracts={f"{M}:Constraint.to_string": _virtual_to_string, f"{M}:ConstConstraint.to_string": _virtual_to_string, f"{M}:EnumConstraint.to_string": _virtual_to_string},
        call=_call_method("detect_conflicts"), timeout_ms=30000,
    )


def chain_evaluate_contract(n: int) -> FunctionContract:
    holder = {}

    def setup(I):
        _chain_setup(I)
        holder["I"] = I

    def detect_contract(I, self_obj, pos, kw, st):
        # contract of detect_conflicts (proved separately for the same n): non-empty iff conflict(cs)
        k = z3.FreshInt("nconf")
        st.pc.append(z3.And(k >= 0, (k > 0) == conflict_formula(I, self_obj)))
        yield st, _SymSeq(None, "obj", "conflicts", k, "ConstraintConflictError", lambda i: _SObj("ConstraintConflictError", {"constraint1": z3.String("c1"), "constraint2": z3.String("c2"), "reason": z3.String("rs")}))

    def accept(a):
        I = holder["I"]
        v = I.as_val(a.value)
        return z3.And(z3.Not(conflict_formula(I, a.self)), *[acc(r, v) for r in a.self._refs])

    def post_iff(a, r):
        return Iff(valid(r), accept(a))

    def post_conflict_codes(a, r):
        from verif.pyvc.spec import forall_index

        I = holder["I"]
        return Implies(conflict_formula(I, a.self), And(Not(valid(r)), forall_index(attr(r, "errors"), lambda j, e: str_eq(attr(e, "code"), "E999"))))

    def post_wf(a, r):
        from verif.pyvc.spec import length

        ln = length(attr(r, "errors"))
        return Iff(valid(r), ln == 0)

    return FunctionContract(
        M, "ConstraintChain.evaluate", {"self": ChainSelf(n), "value": ANY, "path": Str()},
        {f"valid_iff_accept[n={n}]": post_iff, f"conflict_errors_E999[n={n}]": post_conflict_codes, f"wf[n={n}]": post_wf},
        setup=setup,
        callee_contracts={f"{M}:ConstraintChain.detect_conflicts": detect_contract, f"{M}:Constraint.evaluate": _virtual_evaluate},
        call=_call_method("evaluate"), timeout_ms=30000,
    )


# ---- _parse_atom: the parameter reader of CONST / ENUM / RANGE / MIN / MAX_LENGTH chain texts -----------------------------------
def _atom_posts():
    def stripped(a):
        s = a.s
        return V.str_strip(s) if symbolic(s) else s.strip()

    def no_float_syntax_means_int_or_the_word(a, r):
        """a bare parameter without a decimal point or exponent letter is an integer or the word itself - never a float
        (INF / NaN / Infinity are enum words, not numbers) - unless it is quoted or one of true / false / null"""
        s = stripped(a)
        if symbolic(s) or symbolic(r):
            s = s if V.is_z3(s) else z3.StringVal(s)
            q = z3.Or(z3.And(z3.PrefixOf(z3.StringVal('"'), s), z3.SuffixOf(z3.StringVal('"'), s)), z3.And(z3.PrefixOf(z3.StringVal("'"), s), z3.SuffixOf(z3.StringVal("'"), s)))
            lit = z3.Or(s == z3.StringVal("true"), s == z3.StringVal("false"), s == z3.StringVal("null"))
            nofloat = z3.And(z3.Not(z3.Contains(s, z3.StringVal("."))), z3.Not(z3.Contains(V.str_lower(s), z3.StringVal("e"))))
            if V.is_z3(r) and r.sort() == z3.IntSort():
                cons = True
            elif V.is_z3(r) and r.sort() == z3.StringSort():
                cons = r == s
            elif V.is_z3(r) and r.sort() == V.Val:
                cons = Or(is_int(r), And(is_str(r), str_val(r) == s))
            elif V.is_z3(r):
                cons = False  # a real / float term
            elif isinstance(r, bool) or r is None or isinstance(r, float):
                cons = False
            elif isinstance(r, int):
                cons = True
            elif isinstance(r, str):
                cons = s == z3.StringVal(r)
            else:
                cons = False
            return Implies(And(z3.Not(q), z3.Not(lit), nofloat), cons)
        quoted = (s.startswith('"') and s.endswith('"')) or (s.startswith("'") and s.endswith("'"))
        if quoted or s in ("true", "false", "null") or "." in s or "e" in s.lower():
            return True
        return (isinstance(r, int) and not isinstance(r, bool)) or (isinstance(r, str) and r == s)

    return {"no_float_syntax_means_int_or_the_word": no_float_syntax_means_int_or_the_word}


PARSE_ATOM = FunctionContract(
    M, "_parse_atom", {"s": Str()}, _atom_posts(), raises=(),
    replay_hints=[(lambda t=t: {"s": t}) for t in ("INF", "inf", "NaN", "NAN", "nan", "Infinity", "-inf", "+Infinity", " INF ", "WARN", "42", "-5", "1_000", "٣")],
)
