"""Sidecar contracts for octave_mcp.core.constraints (C08, used by C11 and C13).

Top-level postconditions are taken from the property text of C08; where the text is silent the
contract is silent too (marked 'free')."""
from __future__ import annotations

import re as _re
from datetime import date as _date

import z3

from verif import extract
from verif.pyvc import lib
from verif.pyvc import val as V
from verif.pyvc.spec import (
    And, Iff, Implies, Not, Or, attr, distinct_strs, eq, exists_index, exists_two, in_strlist, is_bool, is_float, is_int, is_list, is_nan, is_none, is_number, is_obj_of,
    is_str, items, length, num_le, startswith, str_eq, str_of, str_val, symbolic,
)
from verif.pyvc.verify import AnyVal, Bool, Const, FunctionContract, Int, Obj, P, Str, StrList

M = "octave_mcp.core.constraints"


# ---- result accessors (dual mode) ----------------------------------------------------------------------


def valid(r):
    return attr(r, "valid")


def first_code(r):
    es = items(attr(r, "errors"))
    return attr(es[0], "code") if es else None


def rejected_with(r, *codes):
    """not valid, at least one error, first error code is one of `codes`"""
    es = items(attr(r, "errors"))
    if not es:
        return False
    c = attr(es[0], "code")
    return And(Not(valid(r)), Or(*[str_eq(c, k) for k in codes]))


def accepted(r):
    return And(valid(r), len(items(attr(r, "errors"))) == 0)


def well_formed(a, r):
    """valid <=> no errors (every kind)"""
    return Iff(valid(r), len(items(attr(r, "errors"))) == 0)


def _list_factory():
    return [1, 2]


ANY = AnyVal(objs={"list": _list_factory, "dict": dict, "LiteralZoneValue": lambda: __import__("octave_mcp.core.ast_nodes", fromlist=["x"]).LiteralZoneValue(content="x")})


def _call_evaluate(f, args):
    return args["self"].evaluate(**{k: v for k, v in args.items() if k != "self"})


def C(qual: str, self_spec: P, posts: dict, pre=None, covers=None, setup=None, **kw) -> FunctionContract:
    return FunctionContract(M, qual, {"self": self_spec, "value": ANY, "path": Str()}, posts, pre=pre, covers=covers or {}, call=_call_evaluate, setup=setup, **kw)


# ---- REQ ---------------------------------------------------------------------------------------------------
REQ = C(
    "RequiredConstraint.evaluate",
    Obj("RequiredConstraint", M),
    {
        "wf": well_formed,
        "reject_empty": lambda a, r: Implies(Or(is_none(a.value), And(is_str(a.value), str_eq(str_val(a.value), ""))), rejected_with(r, "E003")),
        # non-empty strings, numbers and booleans are present values; empty list / map: free
        "accept_present": lambda a, r: Implies(Or(And(is_str(a.value), Not(str_eq(str_val(a.value), ""))), is_number(a.value), is_bool(a.value)), accepted(r)),
    },
    covers={"reject": lambda a, r: Not(valid(r)), "accept": lambda a, r: valid(r)},
)

OPT = C("OptionalConstraint.evaluate", Obj("OptionalConstraint", M), {"always": lambda a, r: accepted(r)})

# ---- CONST -------------------------------------------------------------------------------------------------
CONST = C(
    "ConstConstraint.evaluate",
    Obj("ConstConstraint", M, const_value=AnyVal()),
    {
        "wf": well_formed,
        "equality": lambda a, r: Iff(valid(r), eq(a.value, attr(a.self, "const_value"))),
        "code": lambda a, r: Implies(Not(valid(r)), rejected_with(r, "E004")),
    },
    covers={"reject": lambda a, r: Not(valid(r)), "accept": lambda a, r: valid(r)},
)


# ---- ENUM --------------------------------------------------------------------------------------------------
def _enum_build(allowed_values):
    from octave_mcp.core.constraints import EnumConstraint

    return EnumConstraint(allowed_values=list(allowed_values))


def _exact(a):
    return in_strlist(str_of(a.value), attr(a.self, "allowed_values"))


def _pref(a):
    vs = str_of(a.value)
    return lambda x: startswith(x, vs)


ENUM = C(
    "EnumConstraint.evaluate",
    Obj("EnumConstraint", M, build=_enum_build, allowed_values=StrList()),
    {
        "wf": well_formed,
        "exact": lambda a, r: Implies(_exact(a), accepted(r)),
        "no_match": lambda a, r: Implies(And(Not(_exact(a)), Not(exists_index(attr(a.self, "allowed_values"), lambda j, x: _pref(a)(x)))), rejected_with(r, "E005")),
        "ambiguous": lambda a, r: Implies(And(Not(_exact(a)), exists_two(attr(a.self, "allowed_values"), _pref(a))), rejected_with(r, "E006")),
        "unique_prefix": lambda a, r: Implies(
            And(Not(_exact(a)), exists_index(attr(a.self, "allowed_values"), lambda j, x: _pref(a)(x)), Not(exists_two(attr(a.self, "allowed_values"), _pref(a)))), accepted(r)
        ),
    },
    pre=lambda a: distinct_strs(attr(a.self, "allowed_values")),
    covers={"reject": lambda a, r: Not(valid(r)), "accept": lambda a, r: valid(r)},
)

# ---- TYPE --------------------------------------------------------------------------------------------------
TYPE = C(
    "TypeConstraint.evaluate",
    Obj("TypeConstraint", M, expected_type=Str()),
    {
        "wf": well_formed,
        "string": lambda a, r: Implies(str_eq(attr(a.self, "expected_type"), "STRING"), Iff(valid(r), is_str(a.value))),
        "number": lambda a, r: Implies(str_eq(attr(a.self, "expected_type"), "NUMBER"), Iff(valid(r), is_number(a.value))),  # booleans never numbers
        "boolean": lambda a, r: Implies(str_eq(attr(a.self, "expected_type"), "BOOLEAN"), Iff(valid(r), is_bool(a.value))),
        "list": lambda a, r: Implies(str_eq(attr(a.self, "expected_type"), "LIST"), Iff(valid(r), is_obj_of(a.value, "list"))),
        "code": lambda a, r: Implies(Not(valid(r)), rejected_with(r, "E007")),
    },
    pre=lambda a: Or(*[str_eq(attr(a.self, "expected_type"), t) for t in ("STRING", "NUMBER", "BOOLEAN", "LIST")]),
    covers={"reject": lambda a, r: Not(valid(r)), "accept": lambda a, r: valid(r)},
)


# ---- REGEX -------------------------------------------------------------------------------------------------
REGEX_PATTERN = r"^[a-z]+[0-9]?$"  # a representative anchored pattern; `match` itself is the E2/A-re primitive


class RegexSelf(P):
    def make(self, I, name):
        from verif.pyvc.interp import SObj

        return SObj("RegexConstraint", {"pattern": REGEX_PATTERN, "_compiled": extract.Rx(REGEX_PATTERN, 0)}, fresh_obj=False, name=name)

    def concrete(self, m, sym, ctx):
        from octave_mcp.core.constraints import RegexConstraint

        return RegexConstraint(pattern=REGEX_PATTERN)


def _re_match(pattern, s):
    if symbolic(s):
        return lib.re_pred(pattern, 0, "match")(s)
    return _re.compile(pattern).match(s) is not None


REGEX = C(
    "RegexConstraint.evaluate",
    RegexSelf(),
    {
        "wf": well_formed,
        "match": lambda a, r: Iff(valid(r), _re_match(REGEX_PATTERN, str_of(a.value))),
        "code": lambda a, r: Implies(Not(valid(r)), rejected_with(r, "E008")),
    },
    covers={"reject": lambda a, r: Not(valid(r)), "accept": lambda a, r: valid(r)},
)


# ---- RANGE -------------------------------------------------------------------------------------------------
def _finite_number(v):
    if V.is_z3(v):
        return z3.Or(V.is_VInt(v), z3.And(V.is_VFloat(v), V.Val.fk(v) == 0))
    import math

    return isinstance(v, (int, float)) and not isinstance(v, bool) and math.isfinite(v)


def _float_ok(s):
    if symbolic(s):
        return V.float_str_ok(s)
    try:
        float(s)
        return True
    except ValueError:
        return False


def _float_of(s):
    if symbolic(s):
        k = V.float_of_str_k(s)
        return V.VFloat(V.float_of_str_v(s), k)
    return float(s)


def _within(a, v):
    return And(num_le(attr(a.self, "min_value"), v), num_le(v, attr(a.self, "max_value")))


def _range_build(min_value, max_value):
    from octave_mcp.core.constraints import RangeConstraint

    return RangeConstraint(min_value=min_value, max_value=max_value)


RANGE = C(
    "RangeConstraint.evaluate",
    Obj("RangeConstraint", M, build=_range_build, min_value=AnyVal(), max_value=AnyVal()),
    {
        "wf": well_formed,
        # inclusive numeric bounds, both directions, for numeric (non-bool) values
        "numeric": lambda a, r: Implies(is_number(a.value), Iff(valid(r), _within(a, a.value))),
        # any accepted value is a number or a numeric string within the bounds (bool: free -> the code rejects)
        "accepted_within": lambda a, r: Implies(
            valid(r), Or(And(is_number(a.value), _within(a, a.value)), And(is_str(a.value), _float_ok(str_val(a.value)), _within(a, _float_of(str_val(a.value)))))
        ),
        "code": lambda a, r: Implies(Not(valid(r)), rejected_with(r, "E011")),
    },
    pre=lambda a: And(_finite_number(attr(a.self, "min_value")), _finite_number(attr(a.self, "max_value")), num_le(attr(a.self, "min_value"), attr(a.self, "max_value"))),
    covers={"reject": lambda a, r: Not(valid(r)), "accept": lambda a, r: valid(r)},
)


# ---- MIN/MAX_LENGTH ----------------------------------------------------------------------------------------
def _len_of(v):
    if V.is_z3(v):
        return z3.If(V.is_VStr(v), z3.Length(V.Val.s(v)), V.len_of_obj(V.Val.ref(v)))
    return len(v)


def _sized(v):
    return Or(is_str(v), is_obj_of(v, "list"))


MAXLEN = C(
    "MaxLengthConstraint.evaluate",
    Obj("MaxLengthConstraint", M, max_length=Int()),
    {
        "wf": well_formed,
        "strings_and_lists": lambda a, r: Implies(_sized(a.value), Iff(valid(r), _len_of(a.value) <= attr(a.self, "max_length"))),
        "others_rejected": lambda a, r: Implies(Not(_sized(a.value)), rejected_with(r, "E012")),
        "code": lambda a, r: Implies(Not(valid(r)), rejected_with(r, "E012")),
    },
    pre=lambda a: attr(a.self, "max_length") >= 0,
    covers={"reject": lambda a, r: Not(valid(r)), "accept": lambda a, r: valid(r)},
)
MINLEN = C(
    "MinLengthConstraint.evaluate",
    Obj("MinLengthConstraint", M, min_length=Int()),
    {
        "wf": well_formed,
        "strings_and_lists": lambda a, r: Implies(_sized(a.value), Iff(valid(r), _len_of(a.value) >= attr(a.self, "min_length"))),
        "others_rejected": lambda a, r: Implies(Not(_sized(a.value)), rejected_with(r, "E013")),
        "code": lambda a, r: Implies(Not(valid(r)), rejected_with(r, "E013")),
    },
    pre=lambda a: attr(a.self, "min_length") >= 0,
    covers={"reject": lambda a, r: Not(valid(r)), "accept": lambda a, r: valid(r)},
)

# ---- DATE / ISO8601 ------------------------------------------------------------------------------------------
DATE_RE = r"^\d{4}-\d{2}-\d{2}$"


def real_date(s):
    """a real YYYY-MM-DD date (A-datetime in symbolic mode: CPython's fromisoformat on the matched shape)"""
    if symbolic(s):
        return z3.And(lib.re_pred(DATE_RE, 0, "match")(s), lib.iso_ok(s))
    m = _re.fullmatch(r"(\d{4})-(\d{2})-(\d{2})", s)
    if not m or not s.isascii():
        return False
    try:
        _date(int(m.group(1)), int(m.group(2)), int(m.group(3)))
        return True
    except ValueError:
        return False


DATE = C(
    "DateConstraint.evaluate",
    Obj("DateConstraint", M),
    {
        "wf": well_formed,
        "real_date": lambda a, r: Iff(valid(r), real_date(str_of(a.value))),
        "code": lambda a, r: Implies(Not(valid(r)), rejected_with(r, "E014")),
    },
    covers={"reject": lambda a, r: Not(valid(r)), "accept": lambda a, r: valid(r)},
)


def iso_datetime(s):
    if symbolic(s):
        f = z3.Function("str_replace_2", z3.StringSort(), z3.StringSort(), z3.StringSort(), z3.StringSort())
        return lib.iso_ok(f(s, z3.StringVal("Z"), z3.StringVal("+00:00")))
    from datetime import datetime

    try:
        datetime.fromisoformat(s.replace("Z", "+00:00"))
        return True
    except ValueError:
        return False


ISO = C(
    "Iso8601Constraint.evaluate",
    Obj("Iso8601Constraint", M),
    {
        "wf": well_formed,
        "iso": lambda a, r: Iff(valid(r), iso_datetime(str_of(a.value))),
        "code": lambda a, r: Implies(Not(valid(r)), rejected_with(r, "E015")),
    },
    covers={"reject": lambda a, r: Not(valid(r)), "accept": lambda a, r: valid(r)},
)

MEMBER_CONTRACTS = [REQ, OPT, CONST, ENUM, TYPE, REGEX, RANGE, MAXLEN, MINLEN, DATE, ISO]
