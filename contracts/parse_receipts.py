"""C07 at the parser level, on the real `Parser.parse_section` (symbolic token values over concrete token spines, as in
contracts/parse_scalar.py):

  multiword(kinds)      KEY :: w1 w2 [w3]   (plain words / numbers)  ->  the value is the words joined by ONE space and
                        exactly one `multi_word_coalesce` receipt is appended, whose `result` is that value, whose
                        `original` lists the words and whose line/column are those of the FIRST word token
  canonical(kind)       KEY :: <scalar>     ->  no receipt at all (keys PATTERN / REGEX excepted: their bare values get the
                        documented auto-quote receipt, exactly one, positioned at the key)
  bare_flow(kind)       KEY -> <scalar>     ->  the Assignment of KEY :: <scalar> plus exactly one `bare_flow` receipt at
                        the operator token's line/column
"""
from __future__ import annotations

import z3

from contracts import parse_scalar as PS
from verif.pyvc import spec as S
from verif.pyvc import val as V
from verif.pyvc import verify as VF

PARSER = PS.PARSER
CONSTRUCTOR_KEYS = ("PATTERN", "REGEX")


def _W(a):
    w = S.attr(a.self, "warnings")
    return S.items(w) if hasattr(w, "items") and not isinstance(w, list) else list(w)


def _g(d, k):
    if hasattr(d, "entries"):
        return d.entries.get(k, _MISSING)
    return d.get(k, _MISSING)


class _Missing:
    pass


_MISSING = _Missing()


def _is(d, k, want) -> bool:
    v = _g(d, k)
    return not isinstance(v, _Missing) and not S.symbolic(v) and v == want


def _key_is_constructor(a, i=0):
    k = S.attr(PS._tk(a, i), "value")
    return S.Or(*[S.str_eq(k, c) for c in CONSTRUCTOR_KEYS])


def _word_text(a, i, kind):
    """the text a token contributes to a multi-word value (the parser's _token_to_str): raw lexeme for numbers, the
    quoted form for strings, the literal spelling for booleans and null, the value text otherwise"""
    t = PS._tk(a, i)
    v = S.attr(t, "value")
    if kind == "NUMBER":
        return S.attr(t, "raw")
    if kind == "STRING":
        return z3.Concat(z3.StringVal('"'), v, z3.StringVal('"')) if S.symbolic(v) else f'"{v}"'
    if kind == "BOOLEAN":
        return z3.If(v, z3.StringVal("true"), z3.StringVal("false")) if S.symbolic(v) else ("true" if v else "false")
    if kind == "NULL":
        return "null"
    return v


def multiword(kinds: tuple) -> VF.FunctionContract:
    spine = [("IDENTIFIER", "sym"), ("ASSIGN", None)] + [(k, "sym") for k in kinds] + [("NEWLINE", None), ("EOF", None)]
    toks = PS._toks(spine)
    words = list(range(2, 2 + len(kinds)))

    def pre(a):
        cs = []
        for i, k in zip(words, kinds):
            v = _word_text(a, i, k)
            if isinstance(v, str):
                continue
            # plain words: NAME<qualifier> annotations are a different (list-producing) form
            cs.append(S.Not(z3.Contains(v, z3.StringVal("<"))) if S.symbolic(v) else "<" not in v)
        return S.And(PS._pre([i for i, k in zip(words, kinds) if k == "NUMBER"], depth=False)(a), *cs)

    def joined(a):
        vs = [_word_text(a, i, k) for i, k in zip(words, kinds)]
        if S.symbolic(*vs):
            vs = [v if V.is_z3(v) else z3.StringVal(v) for v in vs]
            out = vs[0]
            for v in vs[1:]:
                out = z3.Concat(out, z3.StringVal(" "), v)
            return out
        return " ".join(vs)

    def coalesce(a):
        return [d for d in _W(a) if _is(d, "subtype", "multi_word_coalesce")]

    def others(a):
        return [d for d in _W(a) if not _is(d, "subtype", "multi_word_coalesce")]

    def original_ok(a):
        c = coalesce(a)
        if len(c) != 1:
            return False
        o = _g(c[0], "original")
        items = S.items(o) if hasattr(o, "items") and not isinstance(o, (list, dict)) else list(o)
        if len(items) != len(words):
            return False
        return S.And(*[S.str_eq(x, _word_text(a, i, k)) for x, i, k in zip(items, words, kinds)])

    return VF.FunctionContract(
        PARSER,
        "Parser.parse_section",
        label="#KEY::" + " ".join(kinds),
        inline_depth=8,
        params={"self": PS._parser(toks, nested=False), "base_indent": VF.Const(0)},
        pre=pre,
        posts={
            "value-is-the-words-joined-by-one-space": lambda a, r: PS._cls(r) == "Assignment" and S.str_eq(S.attr(r, "value"), joined(a)),
            "exactly-one-coalescing-receipt": lambda a, r: len(coalesce(a)) == 1 and _is(coalesce(a)[0], "type", "lenient_parse"),
            "no-other-receipt-unless-PATTERN-or-REGEX-key": lambda a, r: S.Or(len(others(a)) == 0, S.And(len(others(a)) == 1, _key_is_constructor(a))),
            "receipt-result-is-the-value": lambda a, r: len(coalesce(a)) == 1 and S.str_eq(_g(coalesce(a)[0], "result"), joined(a)),
            "receipt-original-lists-the-words": lambda a, r: original_ok(a),
            "receipt-position-is-the-first-word": lambda a, r: len(coalesce(a)) == 1 and S.And(_g(coalesce(a)[0], "line") == S.attr(PS._tk(a, 2), "line"), _g(coalesce(a)[0], "column") == S.attr(PS._tk(a, 2), "column")),
        },
        raises=(),
    )


def canonical(kind: str) -> VF.FunctionContract:
    spine = [("IDENTIFIER", "sym"), ("ASSIGN", None), (kind, "sym"), ("NEWLINE", None), ("EOF", None)]
    toks = PS._toks(spine)

    def autoquote_ok(a):
        w = _W(a)
        if len(w) == 0:
            return True
        if len(w) != 1 or not _is(w[0], "subtype", "pattern_autoquote"):
            return False
        return S.And(_key_is_constructor(a), _g(w[0], "line") == S.attr(PS._tk(a, 0), "line"), _g(w[0], "column") == S.attr(PS._tk(a, 0), "column"))

    return VF.FunctionContract(
        PARSER,
        "Parser.parse_section",
        label=f"#canonical KEY::{kind}",
        inline_depth=8,
        params={"self": PS._parser(toks, nested=False), "base_indent": VF.Const(0)},
        pre=PS._pre([2] if kind == "NUMBER" else [], depth=False),
        posts={
            "no-receipt-for-canonical-input": lambda a, r: autoquote_ok(a),
            "no-receipt-at-all-for-ordinary-keys": lambda a, r: S.Or(len(_W(a)) == 0, _key_is_constructor(a)),
        },
        raises=(),
    )


def bare_flow(kind: str) -> VF.FunctionContract:
    spine = [("IDENTIFIER", "sym"), ("FLOW", "→"), (kind, "sym"), ("NEWLINE", None), ("EOF", None)]
    toks = PS._toks(spine)

    def flow(a):
        return [d for d in _W(a) if _is(d, "subtype", "bare_flow")]

    return VF.FunctionContract(
        PARSER,
        "Parser.parse_section",
        label=f"#KEY->{kind}",
        inline_depth=8,
        params={"self": PS._parser(toks, nested=False), "base_indent": VF.Const(0)},
        pre=PS._pre([2] if kind == "NUMBER" else [], depth=False),
        posts={
            "reads-as-the-assignment": lambda a, r: PS._cls(r) == "Assignment" and S.And(S.str_eq(S.attr(r, "key"), S.attr(PS._tk(a, 0), "value")), PS._same(S.attr(r, "value"), S.attr(PS._tk(a, 2), "value"))),
            "exactly-one-bare-flow-receipt": lambda a, r: len(flow(a)) == 1,
            "receipt-position-is-the-operator": lambda a, r: len(flow(a)) == 1 and S.And(_g(flow(a)[0], "line") == S.attr(PS._tk(a, 1), "line"), _g(flow(a)[0], "column") == S.attr(PS._tk(a, 1), "column")),
            "no-other-receipt-unless-PATTERN-or-REGEX-key": lambda a, r: S.Or(len(_W(a)) == len(flow(a)), S.And(len(_W(a)) == len(flow(a)) + 1, _key_is_constructor(a))),
        },
        raises=(),
    )


MULTIWORD_KINDS = [("IDENTIFIER", "IDENTIFIER"), ("IDENTIFIER", "IDENTIFIER", "IDENTIFIER"), ("IDENTIFIER", "NUMBER"), ("NUMBER", "IDENTIFIER"), ("STRING", "IDENTIFIER"), ("BOOLEAN", "IDENTIFIER"), ("NULL", "IDENTIFIER"), ("IDENTIFIER", "STRING"), ("IDENTIFIER", "BOOLEAN", "NULL")]
