"""Document-level clause of C08 on the real validator.

PRESENT_FIELDS_STEP  one iteration of the first loop of Validator._validate_section (extracted mechanically): an
                     Assignment child - WHATEVER its value, null / false / empty included - is entered into
                     present_fields under its key; a non-Assignment child changes nothing.
What follows the loop (`document_fields = set(present_fields.keys())`, the set difference and the policy branches of
_validate_unknown_fields) works on sets of names: bounded (C08.B2, with unknown fields of every falsy / empty value).
"""
from __future__ import annotations

import z3

from verif.pyvc import loopstep as LS
from verif.pyvc import spec as S
from verif.pyvc import verify as VF
from verif.pyvc.interp import Opaque

VAL = "octave_mcp.core.validator"
AST = "octave_mcp.core.ast_nodes"


def _to_python_value(I, self_obj, pos, kw, st):
    # conversion of the AST value: total, result irrelevant to the clause (only the KEY must be recorded)
    yield st, Opaque("python_value")


def _step():
    return LS.step_function(VAL, "Validator._validate_section", 0)


def _kv(d):
    if hasattr(d, "entries"):
        return list(d.entries.items()) + list(getattr(d, "sym_pairs", []))
    return list(d.items())


def _build_assignment(key, value):
    from octave_mcp.core.ast_nodes import Assignment

    return Assignment(key=key, value=value)


def _build_validator(**_):
    from octave_mcp.core.validator import Validator

    return Validator(schema=None)


PRESENT_FIELDS_STEP = VF.FunctionContract(
    VAL,
    "Validator._validate_section",
    label="#present_fields.step[Assignment]",
    step=_step,
    params={"present_fields": VF.FixedDict(), "child": VF.Obj("Assignment", AST, build=_build_assignment, key=VF.Str(), value=VF.AnyVal()), "self": VF.Obj("Validator", VAL, build=_build_validator)},
    posts={
        "the-key-is-recorded-whatever-the-value": lambda a, r: len(_kv(a.present_fields)) == 1 and S.str_eq(_kv(a.present_fields)[0][0], S.attr(a.child, "key")),
    },
    callee_contracts={VAL + ":Validator._to_python_value": _to_python_value},
    raises=(),
    replay_hints=[(lambda v=v: {"present_fields": {}, "child": _build_assignment("K", v), "self": _build_validator()}) for v in (None, False, 0, "", [], 1, "x")],
)
