"""C05 contracts: fence-line precedence, one iteration of the fence-detecting normaliser (as an
inductive step under the loop invariant), value paths that must return zones unchanged."""
from __future__ import annotations

import z3

from verif import extract
from verif.pyvc import loopstep
from verif.pyvc import spec as S
from verif.pyvc import verify as VF
from verif.pyvc.interp import SList, STuple

LEXER = "octave_mcp.core.lexer"


def _fence_rx():
    rx = extract.module_consts(LEXER).get("FENCE_PATTERN")
    if not isinstance(rx, extract.Rx):
        raise extract.ExtractionError("lexer.FENCE_PATTERN is not an extractable compiled regex")
    return rx


def _closes(seq, marker, trailing):
    return S.And(S.length(seq) == S.length(marker), S.str_eq(S.strip(trailing), ""))


EVAL_FENCE = VF.FunctionContract(
    LEXER,
    "_evaluate_fence_line",
    params={"backtick_seq": VF.Str(), "open_fence_marker": VF.Str(), "trailing_content": VF.Str(), "line": VF.Int(), "column": VF.Int(), "open_line": VF.Int()},
    posts={
        "close-iff": lambda a, r: S.Iff(S.str_eq(r, "close"), _closes(a.backtick_seq, a.open_fence_marker, a.trailing_content)),
        "content-iff-shorter": lambda a, r: S.Iff(S.str_eq(r, "content"), S.length(a.backtick_seq) < S.length(a.open_fence_marker)),
        "two-answers": lambda a, r: S.Or(S.str_eq(r, "close"), S.str_eq(r, "content")),
    },
    raises=("LexerError",),
    raise_posts={"only-longer-or-equal-non-closing": lambda a, exc: S.And(S.length(a.backtick_seq) >= S.length(a.open_fence_marker), S.Not(_closes(a.backtick_seq, a.open_fence_marker, a.trailing_content)))},
    covers={"close": lambda a, r: S.str_eq(r, "close"), "content": lambda a, r: S.str_eq(r, "content")},
)


# ---- one iteration of _normalize_with_fence_detection ------------------------------------------------------------


def _step():
    return loopstep.step_function(LEXER, "_normalize_with_fence_detection", 0)


RET = ["current_fence_marker", "current_info_tag", "in_fence", "open_line", "output_offset", "span_start"]


def _ret(r, name):
    xs = S.items(r)
    return xs[RET.index(name)]


def _m(a):
    return S.re_ok(_fence_rx(), "match", a.line)


def _g(a, k):
    return S.re_grp(_fence_rx(), "match", k, a.line)


def _marker_str(a):
    return S.str_val(a.old.current_fence_marker)


def _close_cond(a):
    return S.And(a.old.in_fence, _m(a), _closes(_g(a, 3), _marker_str(a), _g(a, 4)))


def _out(a):
    xs = S.items(a.output_parts)
    return xs[0]


def _inv(a_in_fence, marker, tag):
    # marker / tag are Optional[str]; an open fence always has its marker string
    return S.And(S.Or(S.is_none(marker), S.is_str(marker)), S.Or(S.is_none(tag), S.is_str(tag)), S.Implies(a_in_fence, S.is_str(marker)))


def _unchanged(a, r, names):
    return S.And(*[S.eq(_ret(r, n), getattr(a.old, n)) for n in names])


def _spans(a):
    return S.items(a.fence_spans)


def _span_is(a, r):
    sp = _spans(a)
    if len(sp) != 1:
        return False
    t = S.items(sp[0])
    if len(t) != 4:
        return False
    return S.And(S.eq(t[0], a.old.span_start), S.eq(t[1], a.old.output_offset + S.length(_out(a))), S.eq(t[2], a.old.current_fence_marker), S.eq(t[3], a.old.current_info_tag))


def _tag_of(a):
    t = S.strip(_g(a, 4))
    return t


STEP = VF.FunctionContract(
    LEXER,
    "_normalize_with_fence_detection",
    label="#loop0.step",
    step=_step,
    params={
        "current_fence_marker": VF.AnyVal(),
        "current_info_tag": VF.AnyVal(),
        "fence_spans": VF.FixedList(),
        "in_fence": VF.Bool(),
        "open_line": VF.Int(),
        "output_offset": VF.Int(),
        "output_parts": VF.FixedList(),
        "span_start": VF.Int(),
        "line": VF.Str(),
        "line_num": VF.Int(),
    },
    # loop invariant (havoc'd state): an open fence always has its marker string
    pre=lambda a: _inv(a.in_fence, a.current_fence_marker, a.current_info_tag),
    posts={
        "one-line-out": lambda a, r: len(S.items(a.output_parts)) == 1,
        "offset-advances-by-line": lambda a, r: S.eq(_ret(r, "output_offset"), a.old.output_offset + S.length(_out(a)) + 1),
        # THE property clause: inside a fence every line that does not close it is appended untouched
        "inside-verbatim": lambda a, r: S.Implies(
            S.And(a.old.in_fence, S.Not(_close_cond(a))),
            S.And(S.str_eq(_out(a), a.line), _ret(r, "in_fence"), _unchanged(a, r, ["current_fence_marker", "current_info_tag", "span_start", "open_line"]), len(_spans(a)) == 0),
        ),
        "close-records-span": lambda a, r: S.Implies(_close_cond(a), S.And(S.str_eq(_out(a), S.nfc(a.line)), S.Not(_ret(r, "in_fence")), _span_is(a, r))),
        "open-records-marker": lambda a, r: S.Implies(
            S.And(S.Not(a.old.in_fence), _m(a)),
            S.And(
                _ret(r, "in_fence"),
                S.eq(_ret(r, "current_fence_marker"), _g(a, 3)),
                S.eq(_ret(r, "span_start"), a.old.output_offset),
                S.eq(_ret(r, "open_line"), a.line_num),
                S.str_eq(_out(a), S.nfc(a.line)),
                len(_spans(a)) == 0,
                S.Implies(S.Not(S.str_eq(_tag_of(a), "")), S.eq(_ret(r, "current_info_tag"), _tag_of(a))),
                S.Implies(S.str_eq(_tag_of(a), ""), S.is_none(_ret(r, "current_info_tag"))),
            ),
        ),
        "outside-nfc-only": lambda a, r: S.Implies(
            S.And(S.Not(a.old.in_fence), S.Not(_m(a))),
            S.And(S.str_eq(_out(a), S.nfc(a.line)), S.Not(_ret(r, "in_fence")), len(_spans(a)) == 0, _unchanged(a, r, ["current_fence_marker", "current_info_tag", "span_start", "open_line"])),
        ),
        "invariant-preserved": lambda a, r: _inv(_ret(r, "in_fence"), _ret(r, "current_fence_marker"), _ret(r, "current_info_tag")),
    },
    raises=("LexerError",),
    raise_posts={
        "only-nested-fence": lambda a, exc: S.And(a.old.in_fence, _m(a), S.length(_g(a, 3)) >= S.length(_marker_str(a)), S.Not(_closes(_g(a, 3), _marker_str(a), _g(a, 4)))),
    },
    replay_hints=[
        dict(current_fence_marker="````", current_info_tag=None, fence_spans=[], in_fence=True, open_line=1, output_offset=5, output_parts=[], span_start=0, line=ln, line_num=2)
        for ln in ("```cafe\u0301", "cafe\u0301", "  ```py e\u0301", "\te\u0301 ", "`````x")
    ] + [dict(current_fence_marker=None, current_info_tag=None, fence_spans=[], in_fence=False, open_line=-1, output_offset=0, output_parts=[], span_start=-1, line=ln, line_num=1) for ln in ("cafe\u0301", "```e\u0301", "K::v")],
    covers={
        "inside": lambda a, r: S.And(a.old.in_fence, _ret(r, "in_fence")),
        "close": lambda a, r: S.And(a.old.in_fence, S.Not(_ret(r, "in_fence"))),
        "open": lambda a, r: S.And(S.Not(a.old.in_fence), _ret(r, "in_fence")),
        "outside": lambda a, r: S.And(S.Not(a.old.in_fence), S.Not(_ret(r, "in_fence"))),
    },
)


# ---- tokenize: the fence-span block --------------------------------------------------------------------------------
# Ghost parameters (not passed to the code) decompose the buffer around the span the way the STEP
# contract + induction guarantee: content = before ++ open_l ++ "\n" ++ [body ++ "\n"] ++ close_l ++ after,
# span = [len(before), len(before ++ ... ++ close_l)), fence lines contain no newline.


def _block():
    return loopstep.block_function(LEXER, "tokenize", "fence_spans[fence_span_idx][0]", "fence_block")


NL = "\n"


def _cat(*xs):
    if S.symbolic(*xs):
        return z3.Concat(*[x if not isinstance(x, str) else z3.StringVal(x) for x in xs])
    return "".join(xs)


def _mid(a):
    if S.symbolic(a.has_body, a.body_):
        return z3.If(a.has_body, z3.Concat(a.body_, z3.StringVal(NL)), z3.StringVal(""))
    return (a.body_ + NL) if a.has_body else ""


def _no_nl(s):
    if S.symbolic(s):
        return z3.Not(z3.Contains(s, z3.StringVal(NL)))
    return NL not in s


def _block_pre(a):
    sp = S.items(S.items(a.fence_spans)[0])
    start, end = sp[0], sp[1]
    whole = _cat(a.before_, a.open_, NL, _mid(a), a.close_, a.after_)
    return S.And(
        S.str_eq(a.content, whole),
        start == S.length(a.before_),
        end == S.length(a.before_) + S.length(a.open_) + 1 + S.length(_mid(a)) + S.length(a.close_),
        _no_nl(a.open_),
        _no_nl(a.close_),
        a.pos == start,
        S.Or(S.is_none(sp[3]), S.is_str(sp[3])),
    )


def _tok(a, i):
    return S.items(a.tokens)[i]


def _expected_text(a):
    if S.symbolic(a.has_body, a.body_):
        return z3.If(a.has_body, a.body_, z3.StringVal(""))
    return a.body_ if a.has_body else ""


def _enum_is(v, name):
    return getattr(v, "member", getattr(v, "name", None)) == name


def _after_starts_nl(a):
    if S.symbolic(a.after_):
        return z3.PrefixOf(z3.StringVal(NL), a.after_)
    return a.after_.startswith(NL)


BLOCK_RET = ["column", "fence_span_idx", "line", "pos"]


def _bret(r, n):
    return S.items(r)[BLOCK_RET.index(n)]


def _fence_block(has_body: bool):
  return VF.FunctionContract(
    LEXER,
    "tokenize",
    label="#fence_block." + ("body" if has_body else "empty"),
    step=_block,
    params={
        "column": VF.Int(),
        "content": VF.Str(),
        "fence_span_idx": VF.Const(0),
        "fence_spans": VF.FixedList(VF.FixedTuple(VF.Int(), VF.Int(), VF.Str(), VF.AnyVal())),
        "line": VF.Int(),
        "pos": VF.Int(),
        "tokens": VF.FixedList(),
        "before_": VF.Str(),
        "open_": VF.Str(),
        "body_": VF.Str(),
        "close_": VF.Str(),
        "after_": VF.Str(),
        "has_body": VF.Const(has_body),
    },
    pre=_block_pre,
    posts={
        "three-or-four-tokens": lambda a, r: len(S.items(a.tokens)) in (3, 4),
        "token-kinds": lambda a, r: S.And(_enum_is(S.attr(_tok(a, 0), "type"), "FENCE_OPEN"), _enum_is(S.attr(_tok(a, 1), "type"), "LITERAL_CONTENT"), _enum_is(S.attr(_tok(a, 2), "type"), "FENCE_CLOSE")),
        # THE property clause: the literal text is exactly the bytes between the fence lines
        "literal-text-is-body": lambda a, r: S.str_eq(S.attr(_tok(a, 1), "value"), _expected_text(a)),
        "marker-and-tag-carried": lambda a, r: S.And(
            S.eq(S.attr(_tok(a, 2), "value"), S.items(S.items(a.fence_spans)[0])[2]),
        ),
        "resumes-after-span": lambda a, r: S.And(
            _bret(r, "fence_span_idx") == 1,
            S.Implies(_after_starts_nl(a), _bret(r, "pos") == S.items(S.items(a.fence_spans)[0])[1] + 1),
            S.Implies(S.Not(_after_starts_nl(a)), _bret(r, "pos") == S.items(S.items(a.fence_spans)[0])[1]),
        ),
    },
    raises=(),
    z3_first_ms=1500,
    timeout_ms=60000,
  )


FENCE_BLOCK_BODY = _fence_block(True)
FENCE_BLOCK_EMPTY = _fence_block(False)


# ---- parser: FENCE_OPEN LITERAL_CONTENT FENCE_CLOSE -> LiteralZoneValue ------------------------------------------------

PARSER = "octave_mcp.core.parser"


def _tokp(kind: str, value: VF.P):
    return VF.Obj("Token", LEXER, type=VF.EnumConst(LEXER, "TokenType", kind), value=value, line=VF.Int(), column=VF.Int())


def _build_parser(tokens, pos):
    from octave_mcp.core.parser import Parser

    p = Parser(tokens)
    p.pos = pos
    return p


def _parse_zone(with_content: bool):
    toks = [_tokp("FENCE_OPEN", VF.FixedDict(fence_marker=VF.Str(), info_tag=VF.AnyVal()))]
    if with_content:
        toks.append(_tokp("LITERAL_CONTENT", VF.Str()))
    toks += [_tokp("FENCE_CLOSE", VF.Str()), _tokp("EOF", VF.Const(None))]

    def tag_in(a):
        return S.items(S.attr(a.self, "tokens"))[0].fields["value"].entries["info_tag"] if hasattr(S.attr(a.self, "tokens"), "items") else a.self.tokens[0].value["info_tag"]

    def marker_in(a):
        return S.items(S.attr(a.self, "tokens"))[0].fields["value"].entries["fence_marker"] if hasattr(S.attr(a.self, "tokens"), "items") else a.self.tokens[0].value["fence_marker"]

    def content_in(a):
        if not with_content:
            return ""
        t = S.items(S.attr(a.self, "tokens"))[1]
        return S.attr(t, "value")

    return VF.FunctionContract(
        PARSER,
        "Parser.parse_literal_zone",
        label="#" + ("content" if with_content else "no-content-token"),
        params={"self": VF.Obj("Parser", PARSER, build=_build_parser, tokens=VF.FixedList(*toks), pos=VF.Const(0))},
        pre=lambda a: S.Or(S.is_none(tag_in(a)), S.is_str(tag_in(a))),
        posts={
            "is-zone": lambda a, r: type(r).__name__ in ("SObj", "LiteralZoneValue") and (getattr(r, "cls", None) or type(r).__name__) == "LiteralZoneValue",
            # THE property clause: the token text is the zone content, untouched
            "content-verbatim": lambda a, r: S.str_eq(S.attr(r, "content"), content_in(a)),
            "marker-verbatim": lambda a, r: S.str_eq(S.attr(r, "fence_marker"), marker_in(a)),
            "tag-stripped-or-none": lambda a, r: S.And(
                S.Implies(S.is_none(tag_in(a)), S.is_none(S.attr(r, "info_tag"))),
                S.Implies(S.And(S.is_str(tag_in(a)), S.str_eq(S.strip(S.str_val(tag_in(a))), "")), S.is_none(S.attr(r, "info_tag"))),
                S.Implies(S.And(S.is_str(tag_in(a)), S.Not(S.str_eq(S.strip(S.str_val(tag_in(a))), ""))), S.eq(S.attr(r, "info_tag"), S.strip(S.str_val(tag_in(a))))),
            ),
            "consumed-to-after-close": lambda a, r: S.attr(a.self, "pos") == (3 if with_content else 2),
        },
        raises=(),
    )


PARSE_ZONE = _parse_zone(True)
PARSE_ZONE_NO_CONTENT = _parse_zone(False)


# ---- emitter: zone as assignment value -----------------------------------------------------------------------------

EMITTER = "octave_mcp.core.emitter"
AST = "octave_mcp.core.ast_nodes"


def _zone_param():
    return VF.Obj("LiteralZoneValue", AST, content=VF.Str(), info_tag=VF.AnyVal(), fence_marker=VF.Str())


def _build_assignment(key, value, leading_comments):
    from octave_mcp.core.ast_nodes import Assignment

    a = Assignment(key=key, value=value)
    a.leading_comments = list(leading_comments)
    return a


def _tagtext(z):
    t = S.attr(z, "info_tag")
    if S.symbolic(t):
        return z3.If(S.And(S.is_str(t), S.Not(S.str_eq(S.str_val(t), ""))), S.str_val(t), z3.StringVal(""))
    return t if t else ""


def _emit_assignment_zone(indent: int):
    ind = "  " * indent

    def expected(a):
        z = S.attr(a.assignment, "value")
        c = S.attr(z, "content")
        mk = S.attr(z, "fence_marker")
        key = S.attr(a.assignment, "key")
        if S.symbolic(c, mk, key, _tagtext(z)):
            body = z3.If(c == z3.StringVal(""), z3.StringVal(""), z3.Concat(c, z3.StringVal("\n")))
            return z3.Concat(z3.StringVal(ind), key, z3.StringVal("::\n" + ind), mk, _tagtext(z), z3.StringVal("\n"), body, z3.StringVal(ind), mk)
        return f"{ind}{key}::\n{ind}{mk}{_tagtext(z)}\n" + (c + "\n" if c else "") + f"{ind}{mk}"

    return VF.FunctionContract(
        EMITTER,
        "emit_assignment",
        label=f"#zone.indent{indent}",
        params={
            "assignment": VF.Obj("Assignment", AST, build=_build_assignment, key=VF.Str(), value=_zone_param(), leading_comments=VF.FixedList()),
            "indent": VF.Const(indent),
            "format_options": VF.Const(None),
        },
        pre=lambda a: S.Or(S.is_none(S.attr(S.attr(a.assignment, "value"), "info_tag")), S.is_str(S.attr(S.attr(a.assignment, "value"), "info_tag"))),
        posts={
            # THE property clause: key line, fence at node indent, content bytes untouched and un-indented, closing fence at node indent
            "zone-text-exact": lambda a, r: S.str_eq(r, expected(a)),
        },
        raises=(),
    )


EMIT_ASSIGNMENT_ZONE = [_emit_assignment_zone(i) for i in (0, 1, 3)]


def _build_block(key, children, leading_comments, target):
    from octave_mcp.core.ast_nodes import Block

    b = Block(key=key, children=list(children))
    b.leading_comments = list(leading_comments)
    b.target = target
    return b


def _build_bare(key, value, leading_comments):
    return _build_assignment(key, value, leading_comments)


def _emit_block_bare_zone(indent: int):
    ind = "  " * indent
    cind = "  " * (indent + 1)

    def expected(a):
        ch = S.items(S.attr(a.block, "children"))[0]
        z = S.attr(ch, "value")
        c, mk, key = S.attr(z, "content"), S.attr(z, "fence_marker"), S.attr(a.block, "key")
        if S.symbolic(c, mk, key, _tagtext(z)):
            body = z3.If(c == z3.StringVal(""), z3.StringVal(""), z3.Concat(c, z3.StringVal("\n")))
            return z3.Concat(z3.StringVal(ind), key, z3.StringVal(":\n" + cind), mk, _tagtext(z), z3.StringVal("\n"), body, z3.StringVal(cind), mk)
        return f"{ind}{key}:\n{cind}{mk}{_tagtext(z)}\n" + (c + "\n" if c else "") + f"{cind}{mk}"

    return VF.FunctionContract(
        EMITTER,
        "emit_block",
        label=f"#bare-zone.indent{indent}",
        params={
            "block": VF.Obj(
                "Block", AST, build=_build_block, key=VF.Str(), leading_comments=VF.FixedList(), target=VF.Const(None),
                children=VF.FixedList(VF.Obj("Assignment", AST, build=_build_bare, key=VF.Const(""), value=_zone_param(), leading_comments=VF.FixedList())),
            ),
            "indent": VF.Const(indent),
            "format_options": VF.Const(None),
        },
        pre=lambda a: S.Or(S.is_none(S.attr(S.attr(S.items(S.attr(a.block, "children"))[0], "value"), "info_tag")), S.is_str(S.attr(S.attr(S.items(S.attr(a.block, "children"))[0], "value"), "info_tag"))),
        posts={"bare-zone-text-exact": lambda a, r: S.str_eq(r, expected(a))},
        raises=(),
    )


EMIT_BLOCK_BARE_ZONE = [_emit_block_bare_zone(i) for i in (0, 2)]
