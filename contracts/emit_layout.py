"""Strict-profile layout of the canonical emitter (C03, second sentence), on the real `emit` / `emit_block` /
`emit_assignment` / `emit_meta`: for document spines (concrete tree shape, symbolic names / keys / values) the emitted
text is EXACTLY the strict layout -

    ===NAME===            explicit envelope
    KEY::<value text>     no space around ::
    BLOCK:                children indented by exactly two spaces per level
      KEY::<value text>
        ...
    ===END===             explicit end, a single final newline

- where <value text> is whatever `emit_value` returns for the value (an abstract callee here: its own obligations are
the R tier - bare / quoted classes, no raw newline or tab - and the zone contracts of C05). The whole real functions
run symbolically; `emit_value` is the only call replaced by its contract.

Assumed: keys PATTERN / REGEX excluded (their values take the documented auto-quote route, C02.F2), no comments, no
format options, no frontmatter / grammar sentinel (their branches are concrete-false on these spines).
"""
from __future__ import annotations

import z3

from verif.pyvc import spec as S
from verif.pyvc import val as V
from verif.pyvc import verify as VF

EMITTER = "octave_mcp.core.emitter"
AST = "octave_mcp.core.ast_nodes"
EV = z3.Function("EMITTED_VALUE", V.Val, z3.IntSort(), z3.StringSort())
KINDS = {"int": VF.Int, "str": VF.Str, "bool": VF.Bool, "null": lambda: VF.Const(None)}


def emit_value_contract(I, self_obj, pos, kw, st):
    v = pos[0]
    ind = pos[1] if len(pos) > 1 else kw.get("indent", 0)
    yield st, EV(I.as_val(v), z3.IntVal(ind) if isinstance(ind, int) else ind)


_MODE = {"symbolic": False}


def _ev(v, indent: int):
    if _MODE["symbolic"]:
        return EV(V.to_val(v), z3.IntVal(indent))
    from octave_mcp.core.emitter import emit_value

    return emit_value(v, indent)


def _eq(r, make_expected):
    """r == expected, where the expected text is built in the mode of r (symbolic run / concrete replay)"""
    _MODE["symbolic"] = V.is_z3(r)
    return S.str_eq(r, make_expected())


def _cat(*parts):
    if S.symbolic(*parts):
        return z3.Concat(*[p if V.is_z3(p) else z3.StringVal(p) for p in parts])
    return "".join(parts)


def _node_common():
    return dict(line=VF.Const(0), column=VF.Const(0), leading_comments=VF.FixedList(), trailing_comment=VF.Const(None))


def _build(cls):
    def build(**kw):
        import importlib

        c = getattr(importlib.import_module(AST), cls)
        return c(**kw)

    return build


def _assign(kind: str):
    return VF.Obj("Assignment", AST, build=_build("Assignment"), key=VF.Str(), value=KINDS[kind](), **_node_common())


def _block(children: list):
    return VF.Obj("Block", AST, build=_build("Block"), key=VF.Str(), children=VF.FixedList(*children), target=VF.Const(None), **_node_common())


def _doc(sections: list, meta: VF.P | None = None):
    return VF.Obj("Document", AST, build=_build("Document"), name=VF.Str(), meta=meta or VF.FixedDict(), sections=VF.FixedList(*sections), has_separator=VF.Const(False), raw_frontmatter=VF.Const(None), trailing_comments=VF.FixedList(), grammar_version=VF.Const(None), **_node_common())


def _not_always_quoted(*keys):
    cs = []
    for k in keys:
        cs += [S.Not(S.str_eq(k, "PATTERN")), S.Not(S.str_eq(k, "REGEX"))]
    return S.And(*cs)


def _items(x):
    return S.items(x) if not isinstance(x, list) else x


def top_assignment(kind: str) -> VF.FunctionContract:
    def sec(a):
        return _items(S.attr(a.doc, "sections"))[0]

    return VF.FunctionContract(
        EMITTER,
        "emit",
        label=f"#DOC[KEY::{kind}]",
        params={"doc": _doc([_assign(kind)]), "format_options": VF.Const(None)},
        pre=lambda a: _not_always_quoted(S.attr(sec(a), "key")),
        posts={"strict-layout": lambda a, r: _eq(r, lambda: _cat("===", S.attr(a.doc, "name"), "===\n", S.attr(sec(a), "key"), "::", _ev(S.attr(sec(a), "value"), 0), "\n===END===\n"))},
        callee_contracts={EMITTER + ":emit_value": emit_value_contract},
        inline_depth=6,
        raises=(),
    )


def nested(depth: int, kind: str) -> VF.FunctionContract:
    """===N=== / B1: / B2: ... (depth blocks) / KEY::v, every level indented by exactly two more spaces"""
    node = _assign(kind)
    for _ in range(depth):
        node = _block([node])

    def chain(a):
        out = []
        n = _items(S.attr(a.doc, "sections"))[0]
        for _ in range(depth):
            out.append(n)
            n = _items(S.attr(n, "children"))[0]
        return out, n

    def expected(a):
        blocks, leaf = chain(a)
        parts = ["===", S.attr(a.doc, "name"), "===\n"]
        for d, b in enumerate(blocks):
            parts += ["  " * d, S.attr(b, "key"), ":\n"]
        parts += ["  " * depth, S.attr(leaf, "key"), "::", _ev(S.attr(leaf, "value"), depth), "\n===END===\n"]
        return _cat(*parts)

    return VF.FunctionContract(
        EMITTER,
        "emit",
        label=f"#DOC[{'B:' * depth}KEY::{kind}]",
        params={"doc": _doc([node]), "format_options": VF.Const(None)},
        pre=lambda a: _not_always_quoted(S.attr(chain(a)[1], "key")),
        posts={"strict-layout": lambda a, r: _eq(r, lambda: expected(a))},
        callee_contracts={EMITTER + ":emit_value": emit_value_contract},
        setup=lambda I: setattr(I, "recursion_ok", {EMITTER + ":emit_block"}),
        inline_depth=4 + 2 * depth,
        raises=(),
    )


def siblings(kind1: str, kind2: str) -> VF.FunctionContract:
    """two top-level assignments and a block with two children: one line each, in order, nothing between them"""
    doc = _doc([_assign(kind1), _block([_assign(kind2), _assign(kind1)]), _assign(kind2)])

    def expected(a):
        s = _items(S.attr(a.doc, "sections"))
        c = _items(S.attr(s[1], "children"))
        return _cat(
            "===", S.attr(a.doc, "name"), "===\n",
            S.attr(s[0], "key"), "::", _ev(S.attr(s[0], "value"), 0), "\n",
            S.attr(s[1], "key"), ":\n",
            "  ", S.attr(c[0], "key"), "::", _ev(S.attr(c[0], "value"), 1), "\n",
            "  ", S.attr(c[1], "key"), "::", _ev(S.attr(c[1], "value"), 1), "\n",
            S.attr(s[2], "key"), "::", _ev(S.attr(s[2], "value"), 0), "\n===END===\n",
        )

    def pre(a):
        s = _items(S.attr(a.doc, "sections"))
        c = _items(S.attr(s[1], "children"))
        return _not_always_quoted(S.attr(s[0], "key"), S.attr(s[2], "key"), S.attr(c[0], "key"), S.attr(c[1], "key"))

    return VF.FunctionContract(
        EMITTER,
        "emit",
        label=f"#DOC[K::{kind1}, B:[K::{kind2},K::{kind1}], K::{kind2}]",
        params={"doc": doc, "format_options": VF.Const(None)},
        pre=pre,
        posts={"strict-layout": lambda a, r: _eq(r, lambda: expected(a))},
        callee_contracts={EMITTER + ":emit_value": emit_value_contract},
        inline_depth=8,
        raises=(),
    )


def meta_fields(kind1: str, kind2: str) -> VF.FunctionContract:
    """META with two scalar fields and a nested one-level block, followed by a top-level assignment"""
    meta = VF.FixedDict(TYPE=KINDS[kind1](), VERSION=KINDS[kind2](), SUB=VF.FixedDict(INNER=KINDS[kind1]()))

    def get(d, k):
        return d.entries[k] if hasattr(d, "entries") else d[k]

    def expected(a):
        m = S.attr(a.doc, "meta")
        s = _items(S.attr(a.doc, "sections"))[0]
        return _cat(
            "===", S.attr(a.doc, "name"), "===\n",
            "META:\n",
            "  TYPE::", _ev(get(m, "TYPE"), 1), "\n",
            "  VERSION::", _ev(get(m, "VERSION"), 1), "\n",
            "  SUB:\n",
            "    INNER::", _ev(get(get(m, "SUB"), "INNER"), 2), "\n",
            S.attr(s, "key"), "::", _ev(S.attr(s, "value"), 0), "\n===END===\n",
        )

    return VF.FunctionContract(
        EMITTER,
        "emit",
        label=f"#DOC[META[{kind1},{kind2},SUB[{kind1}]], KEY::{kind2}]",
        params={"doc": _doc([_assign(kind2)], meta=meta), "format_options": VF.Const(None)},
        pre=lambda a: _not_always_quoted(S.attr(_items(S.attr(a.doc, "sections"))[0], "key")),
        posts={"strict-layout": lambda a, r: _eq(r, lambda: expected(a))},
        callee_contracts={EMITTER + ":emit_value": emit_value_contract},
        inline_depth=8,
        raises=(),
    )


def all_contracts(thorough: bool) -> list[str]:
    ks = list(KINDS)
    refs = [f"top_assignment({k!r})" for k in ks]
    refs += [f"nested({d}, {k!r})" for d in ((1, 2, 3, 4, 6) if thorough else (1, 2, 3)) for k in (ks if thorough else ("str", "int"))]
    refs += [f"siblings({a!r}, {b!r})" for a, b in ((("int", "str"), ("str", "null"), ("bool", "int")) if thorough else (("int", "str"),))]
    refs += [f"meta_fields({a!r}, {b!r})" for a, b in ((("str", "int"), ("null", "bool")) if thorough else (("str", "int"),))]
    refs += [f"frontmatter({k!r})" for k in (ks if thorough else ("str",))]
    return refs


def frontmatter(kind: str) -> VF.FunctionContract:
    """a document with YAML frontmatter and a grammar sentinel: the frontmatter text is emitted between --- lines byte for
    byte (leading / trailing whitespace and indentation included), then a blank line, the sentinel, the envelope"""

    def sec(a):
        return _items(S.attr(a.doc, "sections"))[0]

    doc = VF.Obj("Document", AST, build=_build("Document"), name=VF.Str(), meta=VF.FixedDict(), sections=VF.FixedList(_assign(kind)), has_separator=VF.Const(False), raw_frontmatter=VF.Str(), trailing_comments=VF.FixedList(), grammar_version=VF.Str(), **_node_common())

    def pre(a):
        fm = S.attr(a.doc, "raw_frontmatter")
        gv = S.attr(a.doc, "grammar_version")
        return S.And(_not_always_quoted(S.attr(sec(a), "key")), S.Not(S.str_eq(S.strip(fm), "")), S.Not(S.str_eq(gv, "")))

    return VF.FunctionContract(
        EMITTER,
        "emit",
        label=f"#DOC[frontmatter, sentinel, KEY::{kind}]",
        params={"doc": doc, "format_options": VF.Const(None)},
        pre=pre,
        posts={"frontmatter-verbatim-then-strict-layout": lambda a, r: _eq(r, lambda: _cat("---\n", S.attr(a.doc, "raw_frontmatter"), "\n---\n\nOCTAVE::", S.attr(a.doc, "grammar_version"), "\n===", S.attr(a.doc, "name"), "===\n", S.attr(sec(a), "key"), "::", _ev(S.attr(sec(a), "value"), 0), "\n===END===\n"))},
        callee_contracts={EMITTER + ":emit_value": emit_value_contract},
        inline_depth=6,
        raises=(),
        replay_hints=[(lambda fm=fm: {"doc": _build("Document")(name="N", raw_frontmatter=fm, grammar_version="6.0.0", sections=[_build("Assignment")(key="K", value={"int": 1, "str": "x", "bool": True, "null": None}[kind])]), "format_options": None}) for fm in ("  name: x\n  description: y", "name: x\n", "\nname: x", "name: x  ", "\tname: x")],
    )


# ---- emit_value on scalars: the text handed to the layout above -------------------------------------------------------------------
NQ = z3.Function("NEEDS_QUOTES", z3.StringSort(), z3.BoolSort())


def _needs_quotes_contract(I, self_obj, pos, kw, st):
    yield st, NQ(pos[0] if V.is_z3(pos[0]) else z3.StringVal(pos[0]))


def value_scalar(kind: str) -> VF.FunctionContract:
    """emit_value(int) is the decimal text of the integer, emit_value(bool) is true / false, emit_value(None) is null,
    emit_value(str) is the string itself when needs_quotes says no and a double-quoted text otherwise (which strings need
    quotes, and that the quoted text un-escapes to the string, are the R obligations on needs_quotes and the escape chain)"""
    p = {"int": VF.Int(), "bool": VF.Bool(), "null": VF.Const(None), "str": VF.Str(), "float": VF.AnyVal()}[kind]
    posts = {}
    if kind == "float":
        # a float is written as Python's own shortest round-tripping text (str / repr of the float): no reformatting
        return VF.FunctionContract(
            EMITTER, "emit_value", label="#scalar-float", params={"value": p, "indent": VF.Const(0)},
            pre=lambda a: S.is_float(a.value),
            posts={"python-str-of-the-float": lambda a, r: S.str_eq(r, S.str_of(a.value)) if S.symbolic(a.value) else r == repr(a.value)},
            callee_contracts={EMITTER + ":needs_quotes": _needs_quotes_contract}, raises=(),
            replay_hints=[(lambda v=v: {"value": v, "indent": 0}) for v in (2.5e-07, 1.25e-05, 1e22, 1.5, -0.0, 1e-300, 123456789.125, 5e-324)],
        )
    if kind == "int":
        posts["decimal-text-of-the-integer"] = lambda a, r: S.str_eq(r, S.str_of(a.value)) if S.symbolic(a.value) else r == str(a.value)
    elif kind == "bool":
        posts["true-or-false"] = lambda a, r: S.str_eq(r, z3.If(a.value, z3.StringVal("true"), z3.StringVal("false")) if S.symbolic(a.value) else ("true" if a.value else "false"))
    elif kind == "null":
        posts["null"] = lambda a, r: S.str_eq(r, "null")
    else:

        def post(a, r):
            v = a.value
            if S.symbolic(v, r):
                return z3.Or(z3.And(z3.Not(NQ(v)), r == v), z3.And(NQ(v), z3.PrefixOf(z3.StringVal('"'), r), z3.SuffixOf(z3.StringVal('"'), r), z3.Length(r) >= 2))
            from octave_mcp.core.emitter import needs_quotes

            return (r == v) if not needs_quotes(v) else (r.startswith('"') and r.endswith('"') and len(r) >= 2)

        posts["bare-iff-not-needs-quotes-else-double-quoted"] = post
    return VF.FunctionContract(EMITTER, "emit_value", label=f"#scalar-{kind}", params={"value": p, "indent": VF.Const(0)}, posts=posts, callee_contracts={EMITTER + ":needs_quotes": _needs_quotes_contract}, raises=(),
                               replay_hints=[(lambda v=v: {"value": v, "indent": 0}) for v in {"int": (0, -1, 42, 2**70), "bool": (True, False), "null": (None,), "str": ("x", "a b", "", "true", "007", 'q"q', "a\nb")}[kind]])
