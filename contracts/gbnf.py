"""C13: compile_chain picks the fragment of the most specific member (CONST > ENUM > REGEX > TYPE > DATE/ISO8601 >
first member) - for chains of n members whose kinds are SYMBOLIC (any of the 13 constraint classes at any position)."""
from __future__ import annotations

import z3

from contracts import constraints as CC
from verif.pyvc import val as V
from verif.pyvc.interp import SObj
from verif.pyvc.verify import Const, FunctionContract, Obj, P

GB = "octave_mcp.core.gbnf_compiler"
frag = z3.Function("gbnf_fragment_of", z3.IntSort(), z3.StringSort())  # contract of compile_constraint: a function of the member


def _virtual_compile_constraint(I, self_obj, pos, kw, st):
    c = pos[0] if pos else kw.get("constraint")
    yield st, frag(c.ref)


class CompilerSelf(P):
    def make(self, I, name):
        return SObj("GBNFCompiler", {"_rule_counter": 0}, fresh_obj=False, name=name)

    def concrete(self, m, sym, ctx):
        from octave_mcp.core.gbnf_compiler import GBNFCompiler

        return GBNFCompiler()


PRIORITY = [("ConstConstraint",), ("EnumConstraint",), ("RegexConstraint",), ("TypeConstraint",), ("DateConstraint", "Iso8601Constraint")]


def _is_any(ref, kinds):
    return z3.Or(*[V.cls_of(ref) == V.class_id(k) for k in kinds])


def chain_selection_contract(n: int) -> FunctionContract:
    def post(a, r):
        refs = a.chain._refs
        clauses = []
        none_before = z3.BoolVal(True)  # no member of a higher-priority group exists
        for group in PRIORITY:
            for i, ri in enumerate(refs):
                first_of_group = z3.And(_is_any(ri, group), *[z3.Not(_is_any(rj, group)) for rj in refs[:i]])
                clauses.append(z3.Implies(z3.And(none_before, first_of_group), r == frag(ri)))
            none_before = z3.And(none_before, *[z3.Not(_is_any(rj, group)) for rj in refs])
        clauses.append(z3.Implies(none_before, r == frag(refs[0])))
        return z3.And(*clauses)

    return FunctionContract(
        GB,
        "GBNFCompiler.compile_chain",
        label=f"#n{n}",
        params={"self": CompilerSelf(), "chain": CC.ChainSelf(n)},
        posts={"most-specific-member-decides": post},
        callee_contracts={f"{GB}:GBNFCompiler.compile_constraint": _virtual_compile_constraint},
        setup=CC._chain_setup,
        raises=(),
    )
