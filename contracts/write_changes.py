"""Sidecar contracts for the tri-state changes logic of octave_write and the emitter's treatment of
Absent / null / empty values (C18)."""
from __future__ import annotations

import z3

from verif.pyvc import val as V
from verif.pyvc.interp import Opaque, SDict, SList, SObj, STuple
from verif.pyvc.spec import And, Iff, Implies, Not, Or, symbolic
from verif.pyvc.verify import AnyVal, Const, FunctionContract, Obj, P, Str

W = "octave_mcp.mcp.write"
EM = "octave_mcp.core.emitter"


def _a(name, key, value):
    return SObj("Assignment", {"key": key, "value": value, "line": 0, "column": 0, "leading_comments": SList([], False), "trailing_comment": None}, fresh_obj=False, name=name)


def atom(I, nm):
    v = z3.Const(nm, V.Val)
    I.base_assumptions.append(z3.Not(V.is_VObj(v)))
    return v


class SentinelShape(P):
    def __init__(self, kind):
        self.kind = kind

    def make(self, I, name):
        if self.kind == "scalar":
            return atom(I, name)
        if self.kind == "dict_op":
            return SDict({"$op": z3.String("op")}, False)
        if self.kind == "dict_other":
            return SDict({"k": 1}, False)
        if self.kind == "dict_op_nonstr":
            return SDict({"$op": atom(I, "opv")}, False)

    def concrete(self, m, sym, ctx):
        raise NotImplementedError


def sentinel_contract(kind):
    def post(a, r):
        if kind == "scalar" or kind == "dict_other":
            return z3.Not(r) if V.is_z3(r) else (r is False)
        if kind == "dict_op":
            return Iff(r, a.value.entries["$op"] == z3.StringVal("DELETE"))
        if kind == "dict_op_nonstr":
            v = a.value.entries["$op"]
            return Iff(r, z3.And(V.is_VStr(v), V.Val.s(v) == z3.StringVal("DELETE")))

    return FunctionContract(W, "_is_delete_sentinel", {"value": SentinelShape(kind)}, {f"sentinel_iff_dict_with_op_DELETE[{kind}]": post})


class NormShape(P):
    def __init__(self, kind):
        self.kind = kind

    def make(self, I, name):
        if self.kind == "scalar":
            return atom(I, name)
        if self.kind == "zone":
            return SObj("LiteralZoneValue", {"content": z3.String("zc"), "info_tag": None, "fence_marker": "```"}, fresh_obj=False, name=name)
        if self.kind == "nested":
            return SList([atom(I, "s1"), SList([atom(I, "s2")], False), SDict({"k": atom(I, "s3"), "j": SList([atom(I, "s4")], False)}, False)], False)

    def concrete(self, m, sym, ctx):
        raise NotImplementedError


def normalize_contract(kind):
    def post(a, r):
        if kind == "scalar":
            return V.is_z3(r) and str(r) == "value"
        if kind == "zone":
            return r is a.value
        lv = r
        it = lv.fields["items"].items
        return (lv.cls == "ListValue" and len(it) == 3 and str(it[0]) == "s1" and it[1].cls == "ListValue" and [str(x) for x in it[1].fields["items"].items] == ["s2"]
                and it[2].cls == "InlineMap" and list(it[2].fields["pairs"].entries.keys()) == ["k", "j"] and str(it[2].fields["pairs"].entries["k"]) == "s3"
                and it[2].fields["pairs"].entries["j"].cls == "ListValue")

    return FunctionContract(W, "_normalize_value_for_ast", {"value": NormShape(kind)}, {f"normalised_shape[{kind}]": post}, setup=lambda I: setattr(I, "recursion_ok", {f"{W}:_normalize_value_for_ast"}), inline_depth=8)


# ---- _apply_changes ------------------------------------------------------------------------------------------------------
class ChangesDoc(P):
    """Document(meta {X: m1, Y: m2}, sections [A(k1)=v1, B(kb)[..], A(k2)=v2, A(k3)=v3]) with symbolic keys (duplicates allowed)"""

    def make(self, I, name):
        k = lambda s: z3.String(f"{name}.{s}")  # noqa: E731
        blk = SObj("Block", {"key": k("kb"), "children": SList([_a(f"{name}.BA", k("kba"), atom(I, f"{name}.vba"))], False), "target": None}, fresh_obj=False, name=f"{name}.B")
        secs = [_a(f"{name}.A1", k("k1"), atom(I, f"{name}.v1")), blk, _a(f"{name}.A2", k("k2"), atom(I, f"{name}.v2")), _a(f"{name}.A3", k("k3"), atom(I, f"{name}.v3"))]
        return SObj("Document", {"name": "D", "meta": SDict({"X": atom(I, f"{name}.m1"), "Y": atom(I, f"{name}.m2")}, False), "sections": SList(secs, False), "has_separator": False, "raw_frontmatter": None,
                                 "trailing_comments": SList([], False), "grammar_version": None}, fresh_obj=False, name=name)

    def concrete(self, m, sym, ctx):
        raise NotImplementedError


class ChangesDocNestedMeta(ChangesDoc):
    """as ChangesDoc, with a third META field W holding a NESTED block (what `META:` / `  W:` / `    a::1` reads as: a dict) and a
    fourth, L, holding a list value object - values the request does not name and that are not scalars"""

    def make(self, I, name):
        d = super().make(I, name)
        m = d.fields["meta"]
        nested = SDict({"a": atom(I, f"{name}.wa"), "b": None}, False)
        lv = SObj("ListValue", {"items": SList([atom(I, f"{name}.l1")], False), "tokens": None}, fresh_obj=False, name=f"{name}.L")
        m.entries = {"X": m.entries["X"], "W": nested, "L": lv, "Y": m.entries["Y"]}
        return d


class OneChange(P):
    """changes = {K: <op>} with a symbolic top-level key K (not META / META.x)"""

    def __init__(self, op):
        self.op = op

    def make(self, I, name):
        K = z3.String("K")
        I.base_assumptions.append(z3.And(z3.Not(z3.PrefixOf(z3.StringVal("META."), K)), K != z3.StringVal("META")))
        if self.op == "delete":
            v = SDict({"$op": "DELETE"}, False)
        elif self.op == "null":
            v = None
        elif self.op == "value":
            v = atom(I, "newv")
        elif self.op == "list":
            v = SList([atom(I, "n1"), atom(I, "n2")], False)
        d = SDict({K: v}, False)
        d._K = K
        d._v = v
        return d

    def concrete(self, m, sym, ctx):
        raise NotImplementedError


def _find(nodes, suffix):
    for n in nodes:
        if n.name.endswith(suffix):
            return n
    return None


def apply_changes_contract(op):
    def post(a, r):
        K = a.changes._K
        old = a.old.doc.fields["sections"].items
        new = r.fields["sections"].items
        old_assign = [n for n in old if n.cls == "Assignment"]
        key_is = lambda n: n.fields["key"] == K  # noqa: E731
        names_new = [n.name for n in new]
        parts = [r is a.doc]
        # META untouched
        parts.append(list(r.fields["meta"].entries.keys()) == ["X", "Y"] and str(r.fields["meta"].entries["X"]).endswith("m1") and str(r.fields["meta"].entries["Y"]).endswith("m2"))
        # the block (not an Assignment) is always kept, same object
        parts.append(any(n.name.endswith(".B") for n in new))
        if op == "delete":
            # exactly the top-level Assignments with that key are gone; the rest are the same objects in the same order
            for n in old_assign:
                parts.append(Iff(key_is(n), n.name not in names_new))
            kept_order = [n.name for n in old if n.name in names_new] == names_new
            parts.append(kept_order)
            for n in new:
                o = _find(old, n.name.split(".")[-1])
                if n.cls == "Assignment":
                    parts.append(V.to_val(n.fields["value"]) == V.to_val(o.fields["value"]) if V.is_z3(n.fields["value"]) else n.fields["value"] is o.fields["value"])
        else:
            # same nodes in the same order, plus possibly one appended Assignment
            parts.append(names_new[: len(old)] == [n.name for n in old])
            first_cond = []  # node i is the FIRST assignment with key K
            seen_earlier = False
            none_matches = And(*[Not(key_is(n)) for n in old_assign])
            exp_val = a.changes._v
            for i, n in enumerate(old_assign):
                earlier = [m for m in old_assign[:i]]
                is_first = And(key_is(n), *[Not(key_is(m)) for m in earlier])
                now = _find(new, n.name.split(".")[-1])
                unchanged = V.to_val(now.fields["value"]) == V.to_val(n.fields["value"]) if V.is_z3(now.fields["value"]) and V.is_z3(n.fields["value"]) else (now.fields["value"] is n.fields["value"])
                parts.append(Implies(Not(is_first), unchanged))
                parts.append(Implies(is_first, _is_new_value(now.fields["value"], exp_val, op)))
            appended = len(new) == len(old) + 1
            parts.append(Iff(none_matches, appended))
            if appended:
                last = new[-1]
                parts.append(And(last.cls == "Assignment", last.fields["key"] == K if V.is_z3(last.fields["key"]) else False, _is_new_value(last.fields["value"], exp_val, op)))
        return And(*parts)

    return FunctionContract(W, "WriteTool._apply_changes", {"self": Obj("WriteTool", W), "doc": ChangesDoc(), "changes": OneChange(op)}, {f"only_the_named_key_changes[{op}]": post}, inline_depth=6,
                            setup=lambda I: setattr(I, "recursion_ok", {f"{W}:_normalize_value_for_ast"}))


def _is_new_value(got, exp, op):
    if op == "null":
        return got is None
    if op == "value":
        return V.is_z3(got) and str(got) == "newv"
    if op == "list":
        return isinstance(got, SObj) and got.cls == "ListValue" and [str(x) for x in got.fields["items"].items] == ["n1", "n2"]
    return False


class MetaChange(P):
    def __init__(self, kind):
        self.kind = kind

    def make(self, I, name):
        if self.kind == "dot_set":
            return SDict({"META.X": atom(I, "nx")}, False)
        if self.kind == "dot_delete":
            return SDict({"META.X": SDict({"$op": "DELETE"}, False)}, False)
        if self.kind == "dot_new":
            return SDict({"META.Z": None}, False)
        if self.kind == "merge":
            return SDict({"META": SDict({"X": atom(I, "nx"), "Z": atom(I, "nz"), "Y": SDict({"$op": "DELETE"}, False)}, False)}, False)

    def concrete(self, m, sym, ctx):
        raise NotImplementedError


def meta_changes_contract(kind):
    def post(a, r):
        e = r.fields["meta"].entries
        secs_same = [n.name for n in r.fields["sections"].items] == [n.name for n in a.old.doc.fields["sections"].items] and not any(t[0] == "store" and t[2] == "value" for t in a.trace)
        if kind == "dot_set":
            return secs_same and list(e.keys()) == ["X", "Y"] and str(e["X"]) == "nx" and str(e["Y"]).endswith("m2")
        if kind == "dot_delete":
            return secs_same and list(e.keys()) == ["Y"] and str(e["Y"]).endswith("m2")
        if kind == "dot_new":
            return secs_same and list(e.keys()) == ["X", "Y", "Z"] and e["Z"] is None and str(e["X"]).endswith("m1")
        if kind == "merge":
            return secs_same and list(e.keys()) == ["X", "Z"] and str(e["X"]) == "nx" and str(e["Z"]) == "nz"

    return FunctionContract(W, "WriteTool._apply_changes", {"self": Obj("WriteTool", W), "doc": ChangesDoc(), "changes": MetaChange(kind)}, {f"META_request[{kind}]": post}, inline_depth=6,
                            setup=lambda I: setattr(I, "recursion_ok", {f"{W}:_normalize_value_for_ast"}))


def meta_changes_nested_contract(kind):
    """unmentioned META fields whose values are NOT scalars (a nested block = dict, a list value) keep the value they
    had, unconverted (a dict stays that dict, a list value that list value): a META request never re-normalises, copies or rewrites what it does not name"""

    def post(a, r):
        e = r.fields["meta"].entries
        w, lst = e.get("W"), e.get("L")
        same = (isinstance(w, SDict) and list(w.entries.keys()) == ["a", "b"] and str(w.entries["a"]).endswith("wa") and w.entries["b"] is None
                and isinstance(lst, SObj) and lst.cls == "ListValue" and str(lst.name).endswith(".L") and len(lst.fields["items"].items) == 1 and str(lst.fields["items"].items[0]).endswith("l1"))
        if kind == "dot_set":
            return same and list(e.keys()) == ["X", "W", "L", "Y"] and str(e["X"]) == "nx"
        if kind == "dot_new":
            return same and list(e.keys()) == ["X", "W", "L", "Y", "Z"]
        if kind == "merge":
            return same and list(e.keys()) == ["X", "W", "L", "Z"] and str(e["X"]) == "nx" and str(e["Z"]) == "nz"

    return FunctionContract(W, "WriteTool._apply_changes", {"self": Obj("WriteTool", W), "doc": ChangesDocNestedMeta(), "changes": MetaChange(kind)}, {f"META_request[{kind}]_keeps_unnamed_nested_values_identical": post}, inline_depth=6,
                            setup=lambda I: setattr(I, "recursion_ok", {f"{W}:_normalize_value_for_ast"}))


def mutations_contract():
    class Mut(P):
        def make(self, I, name):
            return SDict({"X": SDict({"$op": "DELETE"}, False), "Z": SList([atom(I, "z1")], False)}, False)

        def concrete(self, m, sym, ctx):
            raise NotImplementedError

    def post(a, r):
        e = a.doc.fields["meta"].entries
        return list(e.keys()) == ["Y", "Z"] and str(e["Y"]).endswith("m2") and e["Z"].cls == "ListValue" and [n.name for n in a.doc.fields["sections"].items] == [n.name for n in a.old.doc.fields["sections"].items]

    return FunctionContract(W, "WriteTool._apply_mutations", {"self": Obj("WriteTool", W), "doc": ChangesDoc(), "mutations": Mut()}, {"only_given_META_keys": post}, inline_depth=6,
                            setup=lambda I: setattr(I, "recursion_ok", {f"{W}:_normalize_value_for_ast"}))


# ---- emitter: Absent / null / "" / [] ---------------------------------------------------------------------------------------
ABSENT = SObj("Absent", {}, fresh_obj=False, name="ABSENT")


class TriStateDoc(P):
    def make(self, I, name):
        k = lambda s: z3.String(f"{name}.{s}")  # noqa: E731
        ident = lambda s: I.base_assumptions.append(z3.Length(s) > 0) or s  # noqa: E731
        lv = SObj("ListValue", {"items": SList([ABSENT, None, ""], False), "tokens": None}, fresh_obj=False, name=f"{name}.L")
        empty = SObj("ListValue", {"items": SList([], False), "tokens": None}, fresh_obj=False, name=f"{name}.E")
        imap = SObj("InlineMap", {"pairs": SDict({"a": ABSENT, "b": None}, False)}, fresh_obj=False, name=f"{name}.M")
        blk = SObj("Block", {"key": k("kb"), "children": SList([_a(f"{name}.BA", k("kba"), ABSENT), _a(f"{name}.BN", k("kbn"), None)], False), "target": None, "leading_comments": SList([], False)}, fresh_obj=False, name=f"{name}.B")
        secs = [_a(f"{name}.A1", k("k1"), ABSENT), _a(f"{name}.A2", k("k2"), None), _a(f"{name}.A3", k("k3"), ""), _a(f"{name}.A4", k("k4"), empty), _a(f"{name}.A5", k("k5"), lv), _a(f"{name}.A6", k("k6"), imap), blk]
        return SObj("Document", {"name": "D", "meta": SDict({"P": ABSENT, "Q": None}, False), "sections": SList(secs, False), "has_separator": False, "raw_frontmatter": None,
                                 "trailing_comments": SList([], False), "grammar_version": None}, fresh_obj=False, name=name)

    def concrete(self, m, sym, ctx):
        raise NotImplementedError


def emit_tristate_contract():
    def post(a, r):
        s = lambda x: a.doc.fields["sections"].items[x].fields["key"]  # noqa: E731
        blk = a.doc.fields["sections"].items[6]
        exp = z3.Concat(
            z3.StringVal("===D===\nMETA:\n  Q::null\n"),
            s(1), z3.StringVal("::null\n"),
            s(2), z3.StringVal('::""\n'),
            s(3), z3.StringVal("::[]\n"),
            s(4), z3.StringVal('::[null,""]\n'),
            s(5), z3.StringVal("::[b::null]\n"),
            blk.fields["key"], z3.StringVal(":\n  "), blk.fields["children"].items[1].fields["key"], z3.StringVal("::null\n===END===\n"),
        )
        return r == exp

    return FunctionContract(EM, "emit", {"doc": TriStateDoc(), "format_options": Const(None)}, {"absent_emits_nothing_null_emits_null_empty_stays_empty": post}, inline_depth=10,
                            setup=lambda I: setattr(I, "recursion_ok", {f"{EM}:emit_value", f"{EM}:emit_block", f"{EM}:emit_section"}))


EMIT_VALUE_ABSENT = FunctionContract(EM, "emit_value", {"value": Const(ABSENT), "indent": Const(0)}, {}, raises=("ValueError",), covers={}, raise_posts={"always_raises": lambda a, cls: cls == "ValueError"})
