#!/usr/bin/env python
"""Run the fs fault-injection / kill-point sweep (single faults + kills) over every scenario.

Exit 0 whatever the code under test does (violations are findings, printed below); exit 1 only if the
harness itself misbehaves: a trace run not producing the expected outcome, a fault index that never
fires, a kill point not reached, a non-deterministic index space, temp dirs left behind, or the harness
failing to flag a deliberately non-atomic writer.

    PYTHONPATH=/repo/src:/verif /verif/.venv/bin/python /verif/tests/test_fsharness.py [--pairs] [--json]
"""
from __future__ import annotations

import glob
import json
import os
import sys
import tempfile
import time

sys.path.insert(0, os.path.dirname(os.path.dirname(os.path.abspath(__file__))))
from verif.bounded import fsharness as H  # noqa: E402


def broken_writer(target_path: str, content: str) -> dict:
    """deliberately non-atomic: truncates the target in place, then writes."""
    open(target_path, "w").write(content)
    return {"status": "success", "canonical_hash": H._sha(content), "path": target_path}


def _broken_scenarios() -> list[dict]:
    base = {"tool": "func", "func": f"{__name__}:broken_writer", "target": "x.oct.md", "call": {"content": H.NEW}, "expect": "success"}
    return [dict(base, name="broken_overwrite", pre={"x.oct.md": {"text": H.OLD, "mode": 0o640}}),
            dict(base, name="broken_new", pre={})]


def main() -> int:
    pairs = "--pairs" in sys.argv
    cores = int(os.environ.get("VERIF_CORES", os.cpu_count() or 4))
    pat = os.path.join(tempfile.gettempdir(), "vf-fs-*")
    pre_existing = set(glob.glob(pat))
    harness_errors: list[str] = []
    examples: dict[str, dict] = {}
    counts: dict[str, int] = {}
    per_class_scn: dict[str, set] = {}
    total = excluded = 0
    results = []
    t0 = time.time()
    print(f"{'scenario':38} {'calls':>5} {'evals':>6} {'viol':>5} {'excl':>5}  classes")
    for scn in H.scenarios():
        r = H.sweep(scn, pairs=pairs, cores=cores)
        results.append(r)
        total += r["evaluations"]
        excluded += r["excluded_cleanup_fault"]
        harness_errors += r["harness_errors"]
        if r["n_calls"] == 0 and not r["harness_errors"]:
            harness_errors.append(f"{scn['name']}: trace recorded no file-system call at all")
        for lab, n in r["classes"].items():
            counts[lab] = counts.get(lab, 0) + n
            per_class_scn.setdefault(lab, set()).add(scn["name"])
        for v in r["violations"]:
            lab = v["what"].split(":", 1)[0]
            cur = examples.get(lab)
            if cur is None or (v["plausible"] and not cur["plausible"]):  # prefer a realistic errno as the example
                examples[lab] = v
        print(f"{r['scenario']:38} {r['n_calls']:>5} {r['evaluations']:>6} {len(r['violations']):>5} "
              f"{r['excluded_cleanup_fault']:>5}  {json.dumps(r['classes'], sort_keys=True)}")
    print(f"\n{total} runs in {time.time() - t0:.1f}s on {cores} cores; excluded_cleanup_fault schedules: {excluded}")

    print("\n== classes (violations of C16/C17 in the code under test, plus info classes) ==")
    for lab in sorted(counts):
        kind = "info" if lab in H.INFO_LABELS else "VIOLATION"
        print(f"\n[{kind}] {lab}: {counts[lab]} runs in {len(per_class_scn[lab])} scenarios: {', '.join(sorted(per_class_scn[lab]))}")
        v = examples.get(lab)
        if v:
            print(f"   example: scenario={v['scenario']} mode={v['mode']} k={v['k']} errno={v['errno']} at={v['at']} plausible_errno={v['plausible']}")
            print(f"   what:    {v['what']}")
            print(f"   calls:   {' '.join(v['calls'])}")
            combos = sorted({(x["at"].split(":", 1)[1].split("(")[0], x["errno"] or x["mode"]) for r in results for x in r["violations"]
                             if x["what"].startswith(lab + ":") and x["at"]})
            by_call: dict[str, list] = {}
            for c, e in combos:
                by_call.setdefault(c, []).append(e)
            print("   at call -> faults: " + "; ".join(f"{c}: {','.join(es)}" for c, es in by_call.items()))

    # ---- non-vacuity: the same sweep must convict a writer that truncates in place
    print("\n== non-vacuity: deliberately broken writer ==")
    for scn in _broken_scenarios():
        r = H.sweep(scn, pairs=False, cores=cores)
        harness_errors += r["harness_errors"]
        hits = [v for v in r["violations"] if v["what"].startswith("atomicity:") and v["mode"].startswith("kill")]
        empties = [v for v in hits if "EMPTY" in v["what"]]
        after_open = [v for v in empties if v["mode"] == "kill-after" and v["at"] and ":open(" in v["at"]]
        print(f"{scn['name']}: trace={r['trace_calls']} evals={r['evaluations']} atomicity kill violations={len(hits)} "
              f"(empty file: {len(empties)}, kill right after open: {len(after_open)})")
        if after_open:
            print(f"   e.g. {after_open[0]['mode']} k={after_open[0]['k']} at={after_open[0]['at']}: {after_open[0]['what']}")
        else:
            harness_errors.append(f"{scn['name']}: harness did NOT report an empty/truncated target for kill after open (vacuous oracle?)")

    left = sorted(set(glob.glob(pat)) - pre_existing)
    if left:
        harness_errors.append(f"temp dirs left behind: {left}")
    if "--json" in sys.argv:
        print(json.dumps([{a: b for a, b in r.items()} for r in results], default=repr))
    print(f"\nharness self-check: {'OK' if not harness_errors else 'FAILED'}")
    for h in harness_errors[:40]:
        print("  HARNESS ERROR:", h)
    return 1 if harness_errors else 0


if __name__ == "__main__":
    sys.exit(main())
