"""Harness for verif.bounded.model: model/renderer vs the REAL reader and emitter.

For the first N enumerated documents: render canonical text, run parse() and parse_with_warnings(),
compare the AST with the model (diff_model_vs_ast) and compare emit(parse(text)) with the text.
Prints tables of disagreement *classes* (grouped by the shape of the first difference) with a minimal
example each.  The tables are output, not a failure: exit 0 whenever the harness itself runs.

usage: PYTHONPATH=/repo/src:/verif python tests/test_model.py [N=3000] [--lenient K] [--no-examples]
  --lenient K: additionally read up to K lenient renderings of every document whose canonical text read back
  equal, compare content with the model and the injected rewrites with the receipts (original text, line, column).
"""
from __future__ import annotations

import collections
import glob
import itertools
import random
import re
import sys
import time

from verif.bounded.model import (
    ast_to_model, diff_model_vs_ast, documents, lenient_sites, render_all_lenient, render_canonical, value_pool,
)


def shape_of_diff(d: str) -> str:
    """'body[1].children[0].value: type: expected str 'x' got int 1' -> 'children.value: type: str->int'."""
    path, code, rest = (d.split(": ", 2) + ["", ""])[:3]
    where = "meta" if path.startswith("meta") else "doc" if path == "doc" else ("children" if ".children" in path else "body")
    leaf = "value" if ".value" in path else "zone" if ".zone" in path else ""
    if leaf == "value":
        tail = path.split(".value", 1)[1]
        leaf += "[item]" if tail.endswith("]") else "[item].k" if tail else ""
    loc = where + ("." + leaf if leaf else "")
    if code == "type":
        mt = re.match(r"expected (\w+).* got (\w+)", rest, re.S)
        return f"{loc}: type: {mt.group(1)}->{mt.group(2)}" if mt else f"{loc}: type"
    if code == "nodes":
        mt = re.match(r"expected (\[.*?\]) got (\[.*\])", rest, re.S)
        if mt:
            e, g = (re.findall(r"'([ABSCZ?])", x) for x in mt.groups())
            if g == e[: len(g)]:
                return f"{loc}: nodes: trailing siblings missing {sorted(set(e[len(g):]))}"
            if e == g[: len(e)]:
                return f"{loc}: nodes: extra trailing nodes {sorted(set(g[len(e):]))}"
            return f"{loc}: nodes: sequence differs ({'' .join(e)}->{''.join(g)})"
    return f"{loc}: {code}"


def shape_of_error(e: Exception) -> str:
    msg = re.sub(r"line \d+", "line N", str(e))
    msg = re.sub(r"column \d+", "column N", msg)
    msg = re.sub(r"'[^']*'", "'…'", msg)
    return f"{type(e).__name__}: {msg[:90]}"


def abstract_line(s: str) -> str:
    s = re.sub(r"[A-Za-z0-9_]+", "w", s)
    return re.sub(r" {2,}", lambda m: "·" * len(m.group(0)), s)[:60]


def shape_of_textdiff(a: str, b: str) -> tuple[str, str, str]:
    """Class = the differing middle of the first differing line pair, abstracted."""
    la, lb = a.split("\n"), b.split("\n")
    for x, y in itertools.zip_longest(la, lb):
        if x != y:
            if x is None or y is None:
                return (f"line count: canon {abstract_line(x) if x is not None else '<eof>'!r} vs emit {abstract_line(y) if y is not None else '<eof>'!r}", x or "", y or "")
            i = 0
            while i < min(len(x), len(y)) and x[i] == y[i]:
                i += 1
            j = 0
            while j < min(len(x), len(y)) - i and x[-1 - j] == y[-1 - j]:
                j += 1
            mx, my = x[i : len(x) - j], y[i : len(y) - j]
            if not x[:i].strip() and (mx.strip() == "" or my.strip() == ""):
                return (f"indentation: canon {len(x) - len(x.lstrip())} vs emit {len(y) - len(y.lstrip())} spaces ({abstract_line(x.strip())!r})", x, y)
            return (f"canon {abstract_line(mx)!r} vs emit {abstract_line(my)!r}", x, y)
    return ("?", "", "")


class Table:
    def __init__(self, title: str) -> None:
        self.title = title
        self.rows: dict[str, dict] = collections.OrderedDict()

    def add(self, cls: str, text: str, detail: str, label: str) -> None:
        r = self.rows.setdefault(cls, {"n": 0, "text": text, "detail": detail, "label": label, "labels": []})
        r["n"] += 1
        if len(r["labels"]) < 6 and label not in r["labels"]:
            r["labels"].append(label)
        if len(text) < len(r["text"]):
            r.update(text=text, detail=detail, label=label)

    def show(self, examples: bool = True) -> None:
        print(f"\n=== {self.title}: {len(self.rows)} classes, {sum(r['n'] for r in self.rows.values())} documents ===")
        for cls, r in sorted(self.rows.items(), key=lambda kv: -kv[1]["n"]):
            print(f"\n[{r['n']:5d}] {cls}")
            if examples:
                print(f"        minimal example ({r['label']}):")
                for ln in r["text"].split("\n"):
                    print(f"          | {ln}")
                print(f"        -> {r['detail'][:400]}")
                if len(r["labels"]) > 1:
                    print("        also: " + " ; ".join(x[:70] for x in r["labels"][1:5]))


def main(argv: list[str]) -> int:
    from octave_mcp.core.emitter import emit
    from octave_mcp.core.parser import parse, parse_with_warnings

    n = int(argv[1]) if len(argv) > 1 and argv[1].isdigit() else 3000
    lenient_k = int(argv[argv.index("--lenient") + 1]) if "--lenient" in argv else 0
    t0 = time.time()
    t_strict, t_len, t_emit, t_agree = Table("model vs parse()"), Table("model vs parse_with_warnings()"), Table("render_canonical vs emit(parse(.))"), Table("parse() vs parse_with_warnings() disagree")
    t_lenient = Table("lenient renderings (parse_with_warnings): content differs from model")
    t_receipt = Table("lenient renderings: injected rewrites vs receipts (original text, line, column)")
    ok = total = n_lenient = n_inj = 0
    for m in itertools.islice(documents(2, 2, seed=0, limit=n), n):
        total += 1
        text = render_canonical(m)
        firsts = []
        for table, reader in ((t_strict, parse), (t_len, lambda t: parse_with_warnings(t)[0])):
            try:
                doc = reader(text)
            except Exception as e:  # noqa: BLE001
                firsts.append("refused " + shape_of_error(e))
                table.add("REFUSED " + shape_of_error(e), text, str(e), m.label)
                continue
            diffs = diff_model_vs_ast(m, doc)
            firsts.append(shape_of_diff(diffs[0]) if diffs else "")
            if diffs:
                table.add(shape_of_diff(diffs[0]), text, " ;; ".join(diffs[:3]), m.label)
        if firsts[0] != firsts[1]:
            t_agree.add(f"{firsts[0] or 'equal'}  ||  {firsts[1] or 'equal'}", text, "", m.label)
        if not any(firsts):
            ok += 1
        try:
            out = emit(parse(text))
            if out != text:
                cls, x, y = shape_of_textdiff(text, out)
                if firsts[0]:  # the emitter faithfully re-emits an AST that already differs from the model
                    cls = "consequence of content class <" + firsts[0] + ">"
                t_emit.add(cls, text, f"canon line {x!r} emit line {y!r}", m.label)
        except Exception as e:  # noqa: BLE001
            t_emit.add("EMIT/PARSE RAISED " + shape_of_error(e), text, str(e), m.label)
        if lenient_k and not any(firsts):
            rng = random.Random(total)
            for ltext, inj in render_all_lenient(m, lenient_k, rng):
                try:
                    doc, warns = parse_with_warnings(ltext)
                except Exception as e:  # noqa: BLE001
                    t_lenient.add("REFUSED " + shape_of_error(e), ltext, str(e), m.label)
                    continue
                n_lenient += 1
                n_inj += len(inj)
                diffs = diff_model_vs_ast(m, doc)
                if diffs:
                    t_lenient.add(shape_of_diff(diffs[0]), ltext, " ;; ".join(diffs[:3]), m.label)
                # receipts (C07 shape): one per injected rewrite, same original text / line / column, and no others
                want = collections.Counter(
                    ("normalization", '"""' if r.kind == "triple_quote" else r.original_text, r.line, r.column) if r.kind in ("ascii_alias", "triple_quote")
                    else ("multi_word_coalesce", r.original_text, r.line, r.column) for r in inj)
                got = collections.Counter(
                    ("normalization", w.get("original"), w.get("line"), w.get("column")) if w.get("type") == "normalization"
                    else (w.get("subtype"), " ".join(w.get("original") or []) if isinstance(w.get("original"), list) else w.get("original"), w.get("line"), w.get("column"))
                    for w in warns if w.get("type") in ("normalization", "lenient_parse"))
                for k in (want - got):
                    t_receipt.add(f"rewrite without matching receipt: {k[0]} {k[1]!r}", ltext, f"wanted {k}; got {sorted(got, key=str)[:6]}", m.label)
                for k in (got - want):
                    t_receipt.add(f"receipt without injected rewrite: {k[0]} {abstract_line(str(k[1]))!r}", ltext, f"got {k}; wanted {sorted(want, key=str)[:6]}", m.label)
    print(f"documents: {total}; canonical text read back equal to the model by both readers: {ok}; {time.time() - t0:.1f}s")
    ex = "--no-examples" not in argv
    for t in (t_strict, t_len, t_agree, t_emit):
        t.show(ex)
    if lenient_k:
        print(f"\nlenient texts read: {n_lenient}, injected rewrites: {n_inj}")
        t_lenient.show(ex)
        t_receipt.show(ex)

    # packaged files: AST -> model -> canonical text must agree with the emitter and read back equal
    print("\n=== packaged spec files: ast_to_model / render_canonical vs emit ===")
    for f in sorted(glob.glob("/repo/src/octave_mcp/resources/specs/*.oct.md")):
        try:
            d = parse(open(f, encoding="utf-8").read())
            m = ast_to_model(d)
            c, e = render_canonical(m), emit(d)
            first = "" if c == e else shape_of_textdiff(c, e)[0]
            try:
                back = len(diff_model_vs_ast(m, parse(c)))
            except Exception as ex2:  # noqa: BLE001
                back = shape_of_error(ex2)
            print(f"  {f.split('/')[-1]:38s} self-diff={len(diff_model_vs_ast(m, d))} canon==emit={c == e} reparse-diffs={back} {first}")
        except Exception as e:  # noqa: BLE001
            print(f"  {f.split('/')[-1]:38s} {shape_of_error(e)}")
    print(f"\nvalue_pool sizes: small={len(value_pool('small'))} full={len(value_pool('full'))}")
    return 0


if __name__ == "__main__":
    sys.exit(main(sys.argv))
