import itertools, sys, time, unicodedata
from verif.reglang import tokmodel as T
from verif.reglang.alphabet import alphabet
print(T.skeleton_check())
al = alphabet()
t0=time.time()
sm = T.step_model(":")
print("step model built", time.time()-t0, "s; sizes", max(d.size() for d in sm.Fire), sm.no_table.size())
scan = T.scanner_marked()
print("scanner dfa", scan.size())
CH = ['a','v','s','t','1','.','-','_','/','"','\\','\n',' ',':','=','+','<','>','{','}','[',']',',','$','#','%','e','→','§','é','😀','\u0303','~','|','&','@','`','0']
ML = int(sys.argv[1]) if len(sys.argv)>1 else 3
bad=0;n=0;skip=0
for L in range(ML+1):
    for tup in itertools.product(CH, repeat=L):
        s = unicodedata.normalize("NFC", "".join(tup))
        if "```" in s: continue
        for lenient in (False, True):
            m = T.model_tokenize(s, lenient)
            if m == "SKIP": skip+=1; continue
            r = T.real_tokenize(s, lenient)
            n+=1
            norm=lambda x: x if isinstance(x,str) else [(t,(o if t not in ('EOF','NEWLINE') else -1)) for t,o in x]
            if norm(m) != norm(r):
                bad+=1
                if bad<15: print("MISMATCH", repr(s), lenient, m, r)
print("cases", n, "skipped", skip, "bad", bad, f"{time.time()-t0:.1f}s")
