"""Self-test pool for verif.gbnf (reference GBNF reader).  Plain script: exit 0 = all assertions hold.

Repo-compiled grammars are *reported*, never asserted on: a rejection there may be a compiler defect.
"""
import itertools, re, sys, time
from verif import gbnf as G

FAILS: list[str] = []
CHECKS = 0


def check(cond: bool, what: str):
    global CHECKS
    CHECKS += 1
    if not cond:
        FAILS.append(what)
        print("  FAIL:", what)


# ------------------------------------------------------------------ positive pool (hand-written)
JSON = r'''root   ::= object
value  ::= object | array | string | number | ("true" | "false" | "null") ws

object ::=
  "{" ws (
            string ":" ws value
    ("," ws string ":" ws value)*
  )? "}" ws

array  ::=
  "[" ws (
            value
    ("," ws value)*
  )? "]" ws

string ::=
  "\"" (
    [^"\\\x7F\x00-\x1F] |
    "\\" (["\\bfnrt] | "u" [0-9a-fA-F]{4}) # escapes
  )* "\"" ws

number ::= ("-"? ([0-9] | [1-9] [0-9]{0,15})) ("." [0-9]+)? ([eE] [-+]? [0-9] [1-9]{0,15})? ws

# Optional space: by convention, applied in this grammar after literal chars when allowed
ws ::= " "? | "\n" [ \t]{0,20}
'''
JSON_EMPTY_ALT = JSON.replace('ws ::= " "? |', 'ws ::= | " " |')     # llama.cpp's own json.gbnf spelling

ARITH = r'''root  ::= (expr "=" ws term "\n")+
expr  ::= term ([-+*/] term)*
term  ::= ident | num | "(" ws expr ")" ws
ident ::= [a-z] [a-z0-9_]* ws
num   ::= [0-9]+ ws
ws    ::= [ \t\n]*
'''

CHESS = r'''# Specifies chess moves as a list in algebraic notation, using PGN conventions

# Force first move to "1. ", then any 1-2 digit number after, relying on model to follow the pattern
root    ::= "1. " move " " move "\n" ([1-9] [0-9]? ". " move " " move "\n")+
move    ::= (pawn | nonpawn | castle) [+#]?

# piece type, optional file/rank, optional capture, dest file & rank
nonpawn ::= [NBKQR] [a-h]? [1-8]? "x"? [a-h] [1-8]

# optional file & capture, dest file & rank, optional promotion
pawn    ::= ([a-h] "x")? [a-h] [1-8] ("=" [NBKQR])?

castle  ::= "O-O" "-O"?
'''

FEATURES = ('# every construct once\r\n'
            'root ::= item-1 | 2nd-item |\r\n'
            '   third   # newline after | continues the rule\r\n'
            'item-1 ::= "a\\n\\r\\t\\\\\\"\\[\\]\\x41\\u00e9\\U0001F600" . [^a-c\\]x-z] [\\x30-\\x39\\u00e9-]\r\n'
            '2nd-item ::= ( "x"{2} |\r\n'
            '     # comment inside a group\r\n'
            '     "y"{1,}\r\n'
            '   | "z"{0,3} "" "#not-a-comment" )+ third?\r\n'
            '\r\n'
            'third::="t"*("u"|"v")?   [#]  - \r\n'
            '- ::= "dash" 0*\r\n'
            '0 ::= [0]')                       # no trailing newline; names made of digits / '-' are legal

TOLERANT_ONLY = 'root ::= rule_0 my_field\nrule_0 ::= "a"\nmy_field ::= [_a-z]+ rule_0\n'

AFTER_ASSIGN_NEWLINE = 'root ::=\n\n   "a" b\nb ::=   # comment then body on the next line\n "b"\n'
STACKED = 'root ::= "a"*+ "b"{2}? (("c"))\n'

POSITIVE = {"json": JSON, "arith": ARITH, "chess": CHESS, "features": FEATURES,
            "after-assign-newline": AFTER_ASSIGN_NEWLINE, "stacked-operators": STACKED}

print("== positive pool")
for name, text in POSITIVE.items():
    for us in (True, False):
        p = G.check_wellformed(text, allow_underscore=us)
        check(p == [], f"positive {name} (allow_underscore={us}) rejected: {p}")
    check(G.strict_only_rejections(text) == [], f"positive {name}: unexpected strict-only rejections")
check(G.check_wellformed(TOLERANT_ONLY) == [], "tolerant-only grammar rejected in tolerant mode")
p = G.check_wellformed(TOLERANT_ONLY, allow_underscore=False)
check([k for k, _ in p] == ["bad_name"], f"tolerant-only grammar in strict mode: {p}")
so = G.strict_only_rejections(TOLERANT_ONLY)
check(len(so) == 2 and "rule_0" in so[0] and "my_field" in so[1], f"strict_only_rejections: {so}")
check(G.check_wellformed(JSON_EMPTY_ALT, forbid_empty_alternative=False) == [], "json.gbnf original spelling")
p = G.check_wellformed(JSON_EMPTY_ALT)
check([k for k, _ in p] == ["empty_alternative"] and "line 25" in p[0][1], f"json.gbnf empty alternative: {p}")

# structure spot checks
g = G.parse_gbnf(FEATURES)
check(g.order == ["root", "item-1", "2nd-item", "third", "-", "0"], f"rule order {g.order}")
it = g.rules["item-1"]
check(isinstance(it, G.Seq) and it.items[0] == G.Lit('a\n\r\t\\"[]A\u00e9\U0001F600'), f"escapes: {it.items[0]!r}")
check(isinstance(it.items[1], G.Any), "any-char item")
check(it.items[2] == G.CharClass([(97, 99), (93, 93), (120, 122)], True), f"negated class {it.items[2]}")
check(it.items[3] == G.CharClass([(0x30, 0x39), (0xE9, 0xE9), (45, 45)], False), f"class w/ trailing '-' {it.items[3]}")
th = g.rules["third"]
check(th.items[0] == G.Repeat(G.Lit("t"), 0, None) and th.items[1] == G.Repeat(G.Alt([G.Lit("u"), G.Lit("v")]), 0, 1)
      and th.items[2] == G.CharClass([(35, 35)], False) and th.items[3] == G.Ref("-"), f"third: {th}")
g2 = g.rules["2nd-item"]
check(isinstance(g2, G.Seq) and isinstance(g2.items[0], G.Repeat) and g2.items[0].min == 1
      and [type(o).__name__ for o in g2.items[0].item.options] == ["Repeat", "Repeat", "Seq"]
      and g2.items[0].item.options[0] == G.Repeat(G.Lit("x"), 2, 2)
      and g2.items[0].item.options[1] == G.Repeat(G.Lit("y"), 1, None)
      and g2.items[0].item.options[2].items == [G.Repeat(G.Lit("z"), 0, 3), G.Lit(""), G.Lit("#not-a-comment")],
      f"2nd-item: {g2}")
st = G.parse_gbnf(STACKED).rules["root"]
check(st.items[0] == G.Repeat(G.Repeat(G.Lit("a"), 0, None), 1, None)
      and st.items[1] == G.Repeat(G.Repeat(G.Lit("b"), 2, 2), 0, 1) and st.items[2] == G.Lit("c"), f"stacked: {st}")
d = G.parse_gbnf('root ::= "a"\nroot ::= "b"\n')
check(d.rules["root"] == G.Lit("b") and d.duplicates == [("root", 2)], "duplicate: last definition wins, recorded")

# ------------------------------------------------------------------ negative pool
NEGATIVE = [
    # (label, text, expected kind, allow_underscore)
    ("missing ::=", 'root "a"\n', "syntax", True),
    ("single colon", 'root := "a"\n', "syntax", True),
    ("junk char in body", 'root ::= "a" @ "b"\n', "syntax", True),
    ("newline before | at top level", 'root ::= "a"\n  | "b"\n', "bad_name", True),
    ("empty body runs into next rule", 'a ::=\nroot ::= "x"\n', "syntax", True),
    ("rule continues on next line", 'root ::= "a"\n "b"\n', "bad_name", True),
    ("trailing | swallows the next rule", 'root ::= "a" |\nb ::= "b"\n', "syntax", True),
    ("empty class", 'root ::= []\n', "syntax", True),
    ("reversed range", 'root ::= [z-a]\n', "syntax", True),
    ("{m,n} with m>n", 'root ::= "a"{3,2}\n', "syntax", True),
    ("{ without int", 'root ::= "a"{,2}\n', "syntax", True),
    ("{ unclosed", 'root ::= "a"{2\n', "syntax", True),
    ("{ bad separator", 'root ::= "a"{2;3}\n', "syntax", True),
    ("token syntax unsupported", 'root ::= <[1000]>\n', "syntax", True),
    ("unterminated literal at eol", 'root ::= "abc\nx ::= "y"\n', "unterminated_literal", True),
    ("unterminated literal at eof", 'root ::= "abc', "unterminated_literal", True),
    ("literal ends in escaped quote", 'root ::= "abc\\"\n', "unterminated_literal", True),
    ("unterminated class at eol", 'root ::= [a-z\n', "unterminated_class", True),
    ("unterminated class at eof", 'root ::= [^a-', "unterminated_class", True),
    ("class closed only by escaped ]", 'root ::= [a\\]', "unterminated_class", True),
    ("bad escape \\d", 'root ::= "\\d"\n', "bad_escape", True),
    ("bad escape \\- in class", 'root ::= [a\\-z]\n', "bad_escape", True),
    ("bad escape \\/", 'root ::= "a\\/b"\n', "bad_escape", True),
    ("short \\x", 'root ::= "\\x4"\n', "bad_escape", True),
    ("short \\u", 'root ::= "\\u12g4"\n', "bad_escape", True),
    ("\\U too large", 'root ::= "\\U00110000"\n', "bad_escape", True),
    ("backslash at eof", 'root ::= "\\', "bad_escape", True),
    ("underscore name (strict) def", 'my_rule ::= "a"\nroot ::= "b"\n', "bad_name", False),
    ("underscore name (strict) ref", 'root ::= my_rule\nmy_rule ::= "a"\n', "bad_name", False),
    ("underscore-leading ref (strict)", 'root ::= _x\n', "bad_name", False),
    ("dot in name", 'my.rule ::= "a"\n', "bad_name", True),
    ("no name", '::= "a"\n', "bad_name", True),
    ("non-ascii name", 'r\u00e9gle ::= "a"\n', "bad_name", True),
    ("dangling * at start", 'root ::= * "a"\n', "dangling_operator", True),
    ("dangling + after |", 'root ::= "a" | + "b"\n', "dangling_operator", True),
    ("dangling ? in group", 'root ::= ( ? )\n', "dangling_operator", True),
    ("dangling {", 'root ::= {2}\n', "dangling_operator", True),
    ("operator after empty literal", 'root ::= "a" ""*\n', "dangling_operator", True),
    ("operator after {0}", 'root ::= "a"{0}*\n', "dangling_operator", True),
    ("unclosed group at eof", 'root ::= ( "a" | "b"\n', "unbalanced_paren", True),
    ("unclosed group before next rule", 'root ::= ( "a"\nx ::= "b"\n', "unbalanced_paren", True),
    ("stray )", 'root ::= "a" )\n', "unbalanced_paren", True),
    ("extra )", 'root ::= ( "a" ) )\n', "unbalanced_paren", True),
    ("duplicate rule", 'root ::= a\na ::= "x"\na ::= "y"\n', "duplicate_rule", True),
    ("undefined rule", 'root ::= a b\na ::= "x"\n', "undefined_rule", True),
    ("no root", 'start ::= "x"\n', "no_root", True),
    ("empty grammar", '# nothing\n\n', "no_root", True),
    ("empty alternative trailing", 'root ::= "a" |\n', "empty_alternative", True),
    ("empty alternative leading", 'root ::= | "a"\n', "empty_alternative", True),
    ("empty alternative middle", 'root ::= "a" | | "b"\n', "empty_alternative", True),
    ("empty group", 'root ::= "a" ()\n', "empty_alternative", True),
    ("empty body at eof", 'root ::= ', "empty_alternative", True),
]
print("== negative pool")
kinds_seen = set()
for label, text, kind, us in NEGATIVE:
    p = G.check_wellformed(text, allow_underscore=us)
    kinds_seen.add(kind)
    check([k for k, _ in p] == [kind], f"negative '{label}': expected [{kind}], got {p}")
    if kind not in ("duplicate_rule", "undefined_rule", "no_root", "empty_alternative"):
        try:
            G.parse_gbnf(text, allow_underscore=us)
            check(False, f"negative '{label}': parse_gbnf did not raise")
        except G.GBNFError as e:
            check(e.kind == kind and isinstance(e.line, int) and e.message, f"negative '{label}': raised {e.kind}")
    else:
        try:
            G.parse_gbnf(text, allow_underscore=us, validate_globals=True)
            check(False, f"negative '{label}': parse_gbnf(validate_globals) did not raise")
        except G.GBNFError as e:
            check(e.kind == kind, f"negative '{label}': validate_globals raised {e.kind}")
check(kinds_seen == set(G.KINDS), f"error kinds without a negative case: {set(G.KINDS) - kinds_seen}")
check(G.check_wellformed('root ::= ""\n') == [], 'empty literal "" is an item, not an empty alternative')
check(G.check_wellformed('root ::= "a" | "b"{0}\n') == [], "x{0} is an item, not an empty alternative")
# all global problems are collected together, in a syntactically valid text
p = G.check_wellformed('a ::= b | ()\na ::= c_d\nx ::= ( | a)\n')
check(sorted(k for k, _ in p) == ["duplicate_rule", "empty_alternative", "empty_alternative", "no_root",
                                  "undefined_rule", "undefined_rule"], f"collect-all: {p}")
p = G.check_wellformed('a ::= b | ()\na ::= c_d\nx ::= ( | a)\n', forbid_empty_alternative=False)
check(sorted(k for k, _ in p) == ["duplicate_rule", "no_root", "undefined_rule", "undefined_rule"], f"collect-all/2: {p}")
# line numbers
try:
    G.parse_gbnf('root ::= a\n# c\na ::= (\n "x"\n "\\q" )\n')
    check(False, "line test did not raise")
except G.GBNFError as e:
    check(e.kind == "bad_escape" and e.line == 5, f"line number: {e.kind} {e.line}")
# left recursion (extra check)
check(G.left_recursion(G.parse_gbnf('root ::= e\ne ::= e "+" t | t\nt ::= "n"\n')) == ["e"], "direct left recursion")
check(G.left_recursion(G.parse_gbnf('root ::= a\na ::= o b\no ::= "x"?\nb ::= a "y" | "z"\n')) == ["a", "b"], "indirect via nullable")
check(G.left_recursion(G.parse_gbnf('root ::= ("x"?)*\n')) == ["root(*)"], "nullable body under *")
check(G.left_recursion(G.parse_gbnf(STACKED)) == ["root(*)"], "(a*)+ is left-recursive after llama.cpp's rewriting")
for name, text in POSITIVE.items():
    if name != "stacked-operators":
        check(G.left_recursion(G.parse_gbnf(text)) == [], f"{name}: spurious left recursion")

# ------------------------------------------------------------------ derive / matches
print("== derive / matches")


def brute(grammar, start, sigma, n):
    return {"".join(t) for L in range(n + 1) for t in itertools.product(sigma, repeat=L)
            if G.matches(grammar, start, "".join(t))}


def agree(label, text, start, sigma, n, regex=None):
    t0 = time.time()
    g = G.parse_gbnf(text)
    der, trunc = G.derive_ex(g, start, n, alphabet_hint=sigma)
    check(not trunc, f"{label}: derive truncated")
    check(der == sorted(set(der), key=lambda s: (len(s), s)), f"{label}: derive not sorted/deduplicated")
    check(all(len(s) <= n for s in der), f"{label}: derive exceeds max_len")
    bad = [s for s in der if not G.matches(g, start, s)]
    check(not bad, f"{label}: derived but not matched: {bad[:5]}")
    b = brute(g, start, sigma, n)
    over = {s for s in der if set(s) <= set(sigma)}
    check(over == b, f"{label}: derive vs brute-force matches differ: only-derive={sorted(over - b)[:5]} only-match={sorted(b - over)[:5]}")
    if regex is not None:
        rx = re.compile(regex, re.S)
        r = {"".join(t) for L in range(n + 1) for t in itertools.product(sigma, repeat=L) if rx.fullmatch("".join(t))}
        check(r == b, f"{label}: matches vs re differ: only-re={sorted(r - b)[:5]} only-gbnf={sorted(b - r)[:5]}")
    print(f"  {label}: {len(der)} derived, {len(b)} members over {sigma!r} up to length {n}  [{time.time() - t0:.1f}s]")
    return g, der


agree("number", JSON, "number", "-01.e+ ", 5, r"-?([0-9]|[1-9][0-9]{0,15})(\.[0-9]+)?([eE][-+]?[0-9][1-9]{0,15})?( ?|\n[ \t]{0,20})")
agree("json-string", JSON, "string", 'a"\\nu0', 5, r'"([^"\\\x7f\x00-\x1f]|\\(["\\bfnrt]|u[0-9a-fA-F]{4}))*"( ?|\n[ \t]{0,20})')
agree("json-object", JSON, "value", '{}:"a1,', 5)      # sigma chosen so every class has <= 6 members in it
agree("json-array", JSON, "value", '[],"a1 ', 5)
agree("arith-expr", ARITH, "expr", "a1+() ", 5)
agree("chess-move", CHESS, "move", "NaxO-18+=Q", 4,
      r"(([a-h]x)?[a-h][1-8](=[NBKQR])?|[NBKQR][a-h]?[1-8]?x?[a-h][1-8]|O-O(-O)?)[+#]?")
agree("features-2nd", FEATURES, "2nd-item", "xyzt#", 4)
agree("repeat-bounds", 'root ::= "a"{2,3} "b"{2} "c"{1,} ("d" | ""){5}\n', "root", "abcd", 9, r"a{2,3}b{2}c+d{0,5}")
agree("huge-exponents", 'root ::= ("a"?){3000} "b"{0,2000} ("c" | "")+\n', "root", "abc", 5, r"a{0,3000}b{0,2000}c*")
agree("left-recursive", 'root ::= e\ne ::= e "+" t | t\nt ::= t "*" "n" | "n" | "(" e ")"\n', "root", "n+*()", 6)
agree("empty-cycle", 'root ::= a\na ::= b | "x" a\nb ::= a | "" | b b\n', "root", "x", 4, r"x*")
agree("ambiguous-nesting", 'root ::= (root root | "(" root ")" | "")\n', "root", "()", 8)
agree("any-and-negated", 'root ::= . [^a] .?\n', "root", "ab", 3, r".[^a].?")

# hand-checked members / non-members
gj = G.parse_gbnf(JSON)
for s, want in [('{}', True), ('{"a":1}', True), ('{ "a" : [1, 2.5e3, "x\\n", true, null] }', True),
                ('{"a":{"b":[]}}\n', True), ('{"k":"\\u00e9"}', True),
                ('', False), ('[]', False), ('{"a":01}', False), ('{"a":1,}', False), ("{'a':1}", False),
                ('{"a":"\\x"}', False), ('{"a":1}}', False), ('{"a":tru}', False), ('{"a":"\n"}', False)]:
    check(G.matches(gj, "root", s) == want, f"json membership {s!r} expected {want}")
gc = G.parse_gbnf(CHESS)
for s, want in [("1. e4 e5\n2. Nf3 Nc6\n", True), ("1. e4 e5\n2. O-O O-O-O+\n3. exd8=Q# Kxd8\n", True),
                ("1. e4 e5\n", False), ("1. e4 e5\n2. Nf3\n", False), ("2. e4 e5\n3. d4 d5\n", False),
                ("1. e9 e5\n2. d4 d5\n", False)]:
    check(G.matches(gc, "root", s) == want, f"chess membership {s!r} expected {want}")
ga = G.parse_gbnf(ARITH)
for s, want in [("x=1\n", True), ("a+b*(c-1) = foo_1\n(1)=2\n", True), ("x=1", False), ("=1\n", False),
                ("X=1\n", False), ("a+=1\n", False), ("(a=1\n", False)]:
    check(G.matches(ga, "root", s) == want, f"arith membership {s!r} expected {want}")
gf = G.parse_gbnf(FEATURES)
check(G.matches(gf, "item-1", 'a\n\r\t\\"[]A\u00e9\U0001F600\U0001F600d-'), "features item-1 member")
check(not G.matches(gf, "item-1", 'a\n\r\t\\"[]A\u00e9\U0001F600qb5'), "features item-1: 'b' excluded by [^a-c...]")
check(not G.matches(gf, "item-1", 'a\n\r\t\\"[]A\u00e9\U0001F600q]5'), "features item-1: ']' excluded")
check(G.matches(gf, "root", "tttu#dash000") and G.matches(gf, "root", "#dash") and not G.matches(gf, "root", "#dash1"), "features third")
# representatives: documented cap and membership
cc = G.CharClass([(ord("a"), ord("z")), (ord("0"), ord("9"))], False)
check(G.representatives(cc, "q7!") == ["q", "7", "a", "z", "0", "9"], f"representatives {G.representatives(cc, 'q7!')}")
check(G.representatives(cc, "abcdefgh") == list("abcdef"), "representatives cap 6")
ncc = G.CharClass([(10, 10)], True)
r = G.representatives(ncc, "")
check(len(r) == 6 and "\n" not in r and r[:2] == ["\t", "\x0b"], f"negated representatives {r!r}")
# caps terminate and keep the shortest strings
t0 = time.time()
der, trunc = G.derive_ex(G.parse_gbnf('root ::= [^\\n]* ws\nws ::= [ \\t\\n]*\n'), "root", 30, max_count=2000)
check(trunc and len(der) == 2000 and der[0] == "" and len(der[-1]) <= 5 and time.time() - t0 < 20,
      f"capped derive: trunc={trunc} n={len(der)} last={der[-1]!r} {time.time() - t0:.1f}s")
try:
    G.derive(G.parse_gbnf('root ::= nope\n'), "root", 3)
    check(False, "derive over undefined rule did not raise")
except G.GBNFError as e:
    check(e.kind == "undefined_rule", "derive over undefined rule")

# ------------------------------------------------------------------ grammars the repo's compiler emits today
print("== repo-compiled grammars (reported, not asserted)")
compiled: dict[str, str] = {}
try:
    from octave_mcp.schemas.loader import get_schema_search_paths, load_schema
    from octave_mcp.core.gbnf_compiler import GBNFCompiler
    seen_files = set()
    for d in get_schema_search_paths():
        for f in sorted(d.rglob("*.oct.md")):
            if f.resolve() in seen_files:
                continue
            seen_files.add(f.resolve())
            try:
                schema = load_schema(f)
            except Exception as e:                                   # noqa: BLE001
                print(f"  {f.name}: cannot load schema ({type(e).__name__}: {e})")
                continue
            try:
                compiled[f"{f.name}[{schema.name}]"] = GBNFCompiler().compile_schema(schema, include_envelope=True)
            except Exception as e:                                   # noqa: BLE001
                print(f"  {f.name}: compile_schema raised {type(e).__name__}: {e}")
except ImportError as e:
    print("  octave_mcp not importable:", e)
n_rej = 0
for label, text in compiled.items():
    tol = G.check_wellformed(text, allow_underscore=True)
    strict = G.strict_only_rejections(text)
    lr = []
    try:
        gg = G.parse_gbnf(text)
        lr = G.left_recursion(gg)
        nfields = len([r for r in gg.order if r not in ("ws", "field", "content", "envelope-start", "envelope-end",
                                                          "meta-block", "meta-content", "meta-field", "document", "root")])
    except G.GBNFError:
        nfields = -1
    print(f"  {label}: tolerant={'ACCEPT' if not tol else 'REJECT'}  strict-only problems={len(strict)}"
          f"  left-recursion={lr or 'none'}  ({nfields} field rules)")
    lines = text.split("\n")
    for k, m in tol:
        n_rej += 1
        mm = re.search(r"line (\d+)", m)
        src = lines[int(mm.group(1)) - 1] if mm else ""
        print(f"      {k}: {m}\n        > {src}")
    for s in strict[:4]:
        print(f"      strict: {s}")
    if len(strict) > 4:
        print(f"      strict: ... {len(strict) - 4} more")
    if not tol:
        # consistency on accepted compiled grammars: every derived string of every rule matches
        gg = G.parse_gbnf(text)
        for r in gg.order:
            for s in G.derive(gg, r, 12, max_count=300, alphabet_hint="aA1_ :\n")[:300]:
                if not G.matches(gg, r, s):
                    check(False, f"{label}: rule {r}: derived {s!r} does not match")
                    break
        CHECKS += 1
print(f"  {len(compiled)} compiled grammars, {n_rej} tolerant-mode problems")

# synthetic META.CONTRACT inputs through the same compiler (reported only): shows what the reader catches
print("== repo compiler on synthetic CONTRACT specs (reported, not asserted)")
PROBES = {
    "regex-escaped-dash": ['FIELD[ID]::REQ\u2227REGEX["^[a-z\\-]+$"]'],
    "regex-counted-then-dash": ['FIELD[ID]::REQ\u2227REGEX["^[A-Z]{2,4}-[0-9]+$"]'],
    "regex-literal-text": ['FIELD[ID]::REQ\u2227REGEX["^v[0-9]+$"]'],
    "regex-group-alt": ['FIELD[ID]::REQ\u2227REGEX["^(foo|bar)$"]'],
    "field-named-ws-and-root": ["FIELD[WS]::REQ", "FIELD[ROOT]::REQ"],
    "field-name-collision": ["FIELD[A.B]::REQ", "FIELD[A_DOT_B]::REQ"],
    "plain-enum": ["FIELD[S]::ENUM[a,b]"],
}
try:
    from octave_mcp.core.gbnf_compiler import compile_gbnf_from_meta
    for label, contract in PROBES.items():
        try:
            text = compile_gbnf_from_meta({"TYPE": "T", "CONTRACT": contract})
        except Exception as e:                                       # noqa: BLE001
            print(f"  {label}: compile raised {type(e).__name__}: {e}")
            continue
        tol = G.check_wellformed(text)
        print(f"  {label}: tolerant={'ACCEPT' if not tol else 'REJECT'}  strict-only problems={len(G.strict_only_rejections(text))}")
        for k, m in tol:
            mm = re.search(r"line (\d+)", m)
            print(f"      {k}: {m}\n        > {text.split(chr(10))[int(mm.group(1)) - 1] if mm else ''}")
except ImportError as e:
    print("  octave_mcp not importable:", e)

print(f"== {CHECKS} checks, {len(FAILS)} failures")
for f in FAILS:
    print("  -", f)
sys.exit(1 if FAILS else 0)
