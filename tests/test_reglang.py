"""Cross-check of the regex->automaton translation against CPython's re on all short strings."""
import itertools, re, sys, time
from verif.reglang.alphabet import alphabet, MARK
from verif.reglang import automata as A

al = alphabet()
print("alphabet classes:", al.n)

PATS = [
    r"^[A-Za-z_][A-Za-z0-9_.\-]*(?<!-)\Z",
    r"^[A-Z][A-Z0-9_]*$",
    r"\btrue\b",
    r"-?\d+\.?\d*(?:[eE][+-]?\d+)?",
    r'"(?:[^"\\]|\\.)*"',
    r'"""(?:[^"\\]|\\.|"(?!""))*"""',
    r"//[^\n]*",
    r"\$[A-Za-z0-9_:]+",
    r"(\d+\.\d+(?:-[A-Za-z0-9.-]+)(?:\+[A-Za-z0-9.]+)?)",
    r"===([A-Za-z_][A-Za-z0-9_]*)===",
    r"^( *)((`{3,})([^\n`]*)?)$",
]
CH = ['a', 't', 'r', 'u', 'e', '1', '.', '-', '"', '\\', '\n', ' ', '_', '$', ':', '=', '/', '+', '`', 'é', 'E', 'A']

def check_full(p, maxlen):
    d = A.dfa_regex(p)
    rx = re.compile(p)
    bad = 0; n = 0
    for L in range(maxlen + 1):
        for tup in itertools.product(CH, repeat=L):
            s = "".join(tup)
            n += 1
            if d.accepts_str(s) != (rx.fullmatch(s) is not None):
                bad += 1
                if bad < 5: print("  FULL MISMATCH", repr(p), repr(s), d.accepts_str(s), rx.fullmatch(s))
    return n, bad

def check_longest(p, maxlen, prevs=(None, 'a', ':', ' ')):
    rx = re.compile(p)
    bad = 0; n = 0
    for pv in prevs:
        m = A.longest(A.match_marked(p, prev=None if pv is None else al.cls(pv)))
        anym = A.erase_mark(A.match_marked(p, prev=None if pv is None else al.cls(pv)))
        for L in range(maxlen + 1):
            for tup in itertools.product(CH, repeat=L):
                s = "".join(tup)
                full = (pv or "") + s
                pos = len(pv or "")
                mt = rx.match(full, pos)
                n += 1
                if (mt is not None) != anym.accepts_str(s):
                    bad += 1
                    if bad < 5: print("  ANY MISMATCH", repr(p), repr(pv), repr(s), mt)
                    continue
                if mt is not None:
                    k = mt.end() - pos
                    if not m.accepts_str(s, mark_at=k):
                        bad += 1
                        if bad < 5: print("  LONGEST MISMATCH", repr(p), repr(pv), repr(s), k)
    return n, bad

tot = 0
t0 = time.time()
ML = int(sys.argv[1]) if len(sys.argv) > 1 else 3
for p in PATS:
    n1, b1 = check_full(p, ML)
    n2, b2 = check_longest(p, ML)
    print(f"{p!r}: full {n1} cases {b1} bad; longest {n2} cases {b2} bad")
    tot += b1 + b2
print("total bad", tot, f"{time.time()-t0:.1f}s")
sys.exit(1 if tot else 0)
