#!/bin/bash
# Mutant self-test: apply each kept seeded change to /repo's working tree, run the property's quick check,
# undo the change. Expected: exit 1 for every id. Not a registered check (it touches /repo temporarily).
# Usage: tools/run_seeded.sh [id ...]   -> seeded/RESULTS.txt
set -u
cd /verif
ids=${*:-$(ls seeded | grep '^C')}
if [ -n "$(git -C /repo status --porcelain)" ]; then echo "/repo working tree is not clean"; exit 3; fi
: > seeded/RESULTS.txt
for id in $ids; do
  [ -f seeded/$id/patch.diff ] || continue
  git -C /repo apply /verif/seeded/$id/patch.diff || { echo "$id patch does not apply" | tee -a seeded/RESULTS.txt; continue; }
  prop=${id%%_*}  # C07_r2 -> C07
  VERIF_SCRATCH_OUT=/tmp/vf_scratch ./vf check $prop > /tmp/run_seeded_$id.log 2>&1; code=$?
  git -C /repo checkout -- .
  obs=$(grep -A1 '^VIOLATION' /tmp/run_seeded_$id.log | grep 'obligation' | sed 's/^ *obligation \([^ ]*\).*/\1/' | sort -u | tr '\n' ' ')
  echo "$id exit=$code violated: $obs" | tee -a seeded/RESULTS.txt
  rm -f /tmp/run_seeded_$id.log
done
# the checks rewrote evidence on a changed tree: refresh it on the clean one
for prop in $(for id in $ids; do echo ${id%%_*}; done | sort -u); do ./vf check $prop > /dev/null 2>&1; done
