#!/bin/bash
# False-alarm self-test: behaviour-preserving refactorings (made by sub-agents that saw neither /verif nor the
# properties; each keeps the suite at 2382 passes) are applied to /repo one at a time; the checks of the properties
# that depend on the touched code must NOT report a violation (exit 0; exit 2 = undecided is tolerated and listed).
# Group I is hand-made (aimed at the round-5 rules: faithful memo, tokenize preamble, click.Path keywords, += on a copy).
# Usage: tools/run_refactors.sh [group ...] -> refactors/RESULTS.txt
set -u
cd /verif
declare -A CHECKS=( [I]="C01 C03 C06 C09 C10 C13 C19 C20" [G]="C01 C02 C03 C04 C07 C13 C20" [H]="C01 C03 C05 C06 C07 C08 C13 C20" [A]="C01 C02 C03 C04 C05 C13 C18" [B]="C01 C03 C04 C05 C07 C13 C20" [C]="C12 C13" [D]="C16 C17 C18 C19" [E]="C08 C11 C13" [F]="C09 C10 C14 C15 C19" )
groups=${*:-$(ls refactors | grep '^[A-Z]$')}
if [ -n "$(git -C /repo status --porcelain)" ]; then echo "/repo working tree is not clean"; exit 3; fi
for g in $groups; do
  for p in refactors/$g/refactor_*.diff; do
    git -C /repo apply /verif/$p || { echo "$p does not apply" | tee -a refactors/RESULTS.txt; continue; }
    line="$p:"
    for id in ${CHECKS[$g]}; do
      if [ "$id" = "C20" ]; then VERIF_SCRATCH_OUT=/tmp/vf_scratch ./vf check $id --only C20.R > /tmp/rf_$id.log 2>&1; c1=$?; VERIF_SCRATCH_OUT=/tmp/vf_scratch ./vf check $id --only C20.F > /tmp/rf2_$id.log 2>&1; c2=$?; VERIF_SCRATCH_OUT=/tmp/vf_scratch ./vf check $id --only C20.B2 > /tmp/rf3_$id.log 2>&1; c3=$?; code=$(( c1 > c2 ? c1 : c2 )); code=$(( code > c3 ? code : c3 )); cat /tmp/rf2_$id.log /tmp/rf3_$id.log >> /tmp/rf_$id.log
      else VERIF_SCRATCH_OUT=/tmp/vf_scratch ./vf check $id > /tmp/rf_$id.log 2>&1; code=$?; fi
      line="$line $id=$code"
      if [ $code -ne 0 ]; then grep -E "^(VIOLATION|UNDECIDED|CHECKER-CRASH)" -A1 /tmp/rf_$id.log | cut -c1-400 | head -6 >> refactors/DETAILS.txt; fi
    done
    git -C /repo checkout -- .
    echo "$line" | tee -a refactors/RESULTS.txt
  done
done
