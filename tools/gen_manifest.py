#!/usr/bin/env python3
"""Regenerate MANIFEST.json from the property modules that exist under props/ (run via ./vf? no: plain python3 is enough)."""
import importlib.util, json, os, sys
from pathlib import Path

HERE = Path(__file__).resolve().parent.parent
sys.path.insert(0, str(HERE))
props = [json.loads(l) for l in (HERE / "properties.jsonl").read_text().splitlines() if l.strip()]
baseline = json.loads(Path("/root/.vp/BASELINE.json").read_text()) if Path("/root/.vp/BASELINE.json").exists() else {}
NA = json.loads((HERE / "tools" / "not_applicable.json").read_text()) if (HERE / "tools" / "not_applicable.json").exists() else {}

def meta(pid):
    p = HERE / "props" / f"{pid}.py"
    if not p.exists():
        return None
    src = p.read_text()
    ns = {}
    # module-level string constants only (no imports executed)
    import ast
    for node in ast.parse(src).body:
        if isinstance(node, ast.Assign) and len(node.targets) == 1 and isinstance(node.targets[0], ast.Name):
            try:
                ns[node.targets[0].id] = ast.literal_eval(node.value)
            except Exception:
                pass
    return ns

checks = []
na = []
for p in props:
    pid = p["id"]
    m = meta(pid)
    if m is None or m.get("CLAIMED", True) is False:
        na.append({"property_id": pid, "reason": NA.get(pid, (m or {}).get("NOT_APPLICABLE_REASON", "check not built yet in this round (no contract-based check registered)"))})
        continue
    checks.append({
        "property_id": pid,
        "quick_cmd": f"./vf check {pid} --tier quick",
        "thorough_cmd": f"./vf check {pid} --tier thorough",
        "evidence_file": f"/verif/evidence/{pid}.json",
        "replay_cmd_template": "./vf replay {path}",
        "engine": m.get("ENGINE", "vf"),
        "level_claimed": {"category": m.get("LEVEL", "other"), "text": m.get("LEVEL_TEXT", ""), "design_ref": m.get("DESIGN_REF", f"DESIGN.md §6 {pid}")},
        "level_note": m.get("LEVEL_NOTE", ""),
        "technique": m.get("TECHNIQUE", "contract-based deductive verification (sidecar contracts, VCs / language obligations from the real source); bounded stand-ins labelled B"),
    })

man = {
    "version": 1,
    "setup_cmd": "./vf setup",
    "hooks": {
        "guard": "OCTAVE_MCP_VERIF",
        "enable": "no source hooks in /repo: contracts are sidecar files under /verif/contracts and /verif/props; fault/kill injection patches os/pathlib inside the checker's child processes",
        "baseline_off_cmd": baseline.get("cmd") or baseline.get("command") or "",
        "source_commits": [],
        "add_only": True,
    },
    "engines": [
        {"name": "reglang", "path": "verif/reglang", "kind_free_text": "E2: regexes / replace chains / tables extracted from the real source -> automata and transducers over an exact Unicode class alphabet; language inclusion, transducer identity", "serves_properties": []},
        {"name": "pyvc", "path": "verif/pyvc", "kind_free_text": "E1: verification-condition generator over the real functions' AST, discharged by z3 / cvc5", "serves_properties": []},
        {"name": "frames", "path": "verif/frames", "kind_free_text": "E3: assigns / reads / effects frames by conservative inference over the real AST with call-graph closure", "serves_properties": []},
        {"name": "bounded", "path": "verif/bounded", "kind_free_text": "E4: the same contracts executed on the real functions over exhaustively enumerated small scopes (bounded stand-in, never counted as proved)", "serves_properties": []},
    ],
    "checks": checks,
    "not_applicable": na,
    "notes": "Exit codes: 0 held, 1 VIOLATION (replay file; 'no-failing-input-found' suffix when the verifier gave no replayable input), 2 undecided, 3 checker crash. Known findings: known_findings.jsonl.",
}
(HERE / "MANIFEST.json").write_text(json.dumps(man, indent=1) + "\n")
print(f"MANIFEST.json: {len(checks)} checks, {len(na)} not_applicable")
