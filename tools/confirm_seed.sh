#!/bin/bash
# Confirm a seeded change in a scratch worktree: patch applies, demo passes before / fails after,
# the pinned suite keeps its 2382 passes. Usage: tools/confirm_seed.sh <id> ; result -> seeded/<id>/confirm.txt
set -u
id=$1
wt=/tmp/cw/$id
out=/verif/seeded/$id/confirm.txt
rm -rf "$wt"; git -C /repo worktree prune
git -C /repo worktree add -q --detach "$wt" HEAD || exit 3
{
  echo "worktree: $(git -C /repo rev-parse --short HEAD)"
  demo=$(ls /verif/seeded/$id/demo.* | head -1)
  ( cd "$wt" && PYTHONPATH=$wt/src /venv/bin/python "$demo" >/dev/null 2>&1 ); echo "demo on unchanged tree: exit $?"
  git -C "$wt" apply /verif/seeded/$id/patch.diff && echo "patch applies: yes"
  ( cd "$wt" && PYTHONPATH=$wt/src /venv/bin/python "$demo" >/dev/null 2>&1 ); echo "demo with change: exit $?"
  ( cd "$wt" && PYTHONPATH=$wt/src /venv/bin/python -m pytest -q -p no:cacheprovider --timeout=900 --continue-on-collection-errors 2>&1 | tail -1 ) | sed 's/^/suite (baseline: 25 failed, 2382 passed, 10 skipped, 8 errors): /'
} > "$out" 2>&1
git -C /repo worktree remove --force "$wt"; git -C /repo worktree prune
cat "$out"
