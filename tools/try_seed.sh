#!/bin/bash
# tools/try_seed.sh <property id> <dir with patch.diff> : apply to /repo, run the check, undo; prints exit code and violated obligations
id=$1; dir=$2
git -C /repo apply $dir/patch.diff || { echo "patch does not apply"; exit 3; }
mkdir -p /tmp/vf_scratch; cd /verif && VERIF_SCRATCH_OUT=/tmp/vf_scratch ./vf check $id > /tmp/try_$id.log 2>&1; code=$?
git -C /repo checkout -- .
echo "$id exit=$code"
grep -v ^WARN /tmp/try_$id.log | grep -v Warning | grep -v ^KNOWN | grep -v "^VIOLATION" | cut -c1-${3:-420} | head -${4:-6}
