#!/usr/bin/env python3
"""Validate MANIFEST.json and evidence/*.json against the harness schemas (needs jsonschema: run with python3-vt)."""
import json, sys
from pathlib import Path
import jsonschema
H = Path(__file__).resolve().parent.parent
ms = json.loads(Path("/root/.vp/MANIFEST.schema.json").read_text())
es = json.loads(Path("/root/.vp/EVIDENCE.schema.json").read_text())
man = json.loads((H / "MANIFEST.json").read_text())
jsonschema.validate(man, ms)
print("MANIFEST ok:", len(man["checks"]), "checks")
bad = 0
for c in man["checks"]:
    p = Path(c["evidence_file"])
    if not p.exists():
        print("missing evidence", p); bad += 1; continue
    ev = json.loads(p.read_text())
    try:
        jsonschema.validate(ev, es)
        cov = ev["coverage"]
        print(f"  {ev['property_id']}: level={ev['level']} obligations={cov.get('obligations')} discharged={cov.get('discharged')} evals={cov.get('evaluations')} distinct={cov.get('distinct_nontrivial')} wall={ev['wall_s']}")
    except jsonschema.ValidationError as e:
        print("INVALID", p, e.message[:300]); bad += 1
sys.exit(1 if bad else 0)
