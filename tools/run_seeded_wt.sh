#!/bin/bash
# Mutant self-test WITHOUT touching /repo's working tree: each kept seeded change is applied in its own scratch worktree of
# /repo's HEAD and the property's quick check runs against that tree (VERIF_REPO), with evidence / replay redirected
# (VERIF_SCRATCH_OUT). Expected: exit 1 for every id. Usage: tools/run_seeded_wt.sh [-j N] [id ...] -> seeded/RESULTS.txt
set -u
cd /verif
J=4
if [ "${1:-}" = "-j" ]; then J=$2; shift 2; fi
ids=${*:-$(ls seeded | grep '^C')}
mkdir -p /tmp/vf_scratch /tmp/wt
one() {
  id=$1; prop=${id%%_*}; wt=/tmp/wt/seed_$id
  [ -f /verif/seeded/$id/patch.diff ] || exit 0
  git -C /repo worktree add -q --detach $wt HEAD 2>/dev/null || { echo "$id worktree failed"; exit 0; }
  if git -C $wt apply /verif/seeded/$id/patch.diff 2>/dev/null; then
    VERIF_REPO=$wt VERIF_SCRATCH_OUT=/tmp/vf_scratch/$id /verif/vf check $prop > /tmp/run_seeded_$id.log 2>&1; code=$?
    obs=$(grep -A1 '^VIOLATION' /tmp/run_seeded_$id.log | grep 'obligation' | sed 's/^ *obligation \([^ ]*\).*/\1/' | sort -u | tr '\n' ' ')
    echo "$id exit=$code violated: $obs"
  else
    echo "$id patch does not apply to $(git -C /repo rev-parse --short HEAD) (written against an earlier commit; a later fix: rewrote the same lines)"
  fi
  git -C /repo worktree remove --force $wt 2>/dev/null
  rm -rf /tmp/vf_scratch/$id /tmp/run_seeded_$id.log
}
export -f one
printf "%s\n" $ids | xargs -P $J -I{} bash -c "one {}" | sort > /tmp/seeded_results.$$ && mv /tmp/seeded_results.$$ ${SEEDED_RESULTS:-seeded/RESULTS.txt}  # written only when the whole run is complete
git -C /repo worktree prune
cat ${SEEDED_RESULTS:-seeded/RESULTS.txt} | awk '{print $2}' | sort | uniq -c
